"""trainsim - the real train_* functions inside the simulated world (C20).

Real agents from create_population, real replay buffers / samplers, real TournamentSelection and Mutations (rng = SimRng),
checkpoints into a private temp dir; the environment is a strict scripted environment that keeps a ground-truth log
tagged with the acting agent and the phase (train / test); the module clocks (`time`, `datetime`) are replaced by a
virtual clock that advances on every environment step. Class-level wrappers installed by the simulator (not in /repo)
tag the environment with the acting agent and record clone lineage."""
from __future__ import annotations

import contextlib
import glob
import io
import os
import random
import shutil
import tempfile
from typing import Any, Dict, List, Optional, Tuple

import numpy as np
import torch
from gymnasium import spaces

from sim import kernel
from sim.envs import GYM_OBS_KINDS, IllegalAction, ScriptVecGym, VirtualClock, _mix, gym_obs_space
from sim.rng import SimRng, seed_all

LOOPS = ["off_policy", "off_policy", "on_policy", "offline", "bandits", "ma_off_policy", "ma_on_policy"]
OFF_ALGOS = ["DQN", "Rainbow DQN", "DDPG", "TD3"]
CLS = {"DQN": "DQN", "Rainbow DQN": "RainbowDQN", "DDPG": "DDPG", "TD3": "TD3", "PPO": "PPO", "CQN": "CQN", "NeuralUCB": "NeuralUCB", "NeuralTS": "NeuralTS",
       "MADDPG": "MADDPG", "MATD3": "MATD3", "IPPO": "IPPO"}


# ------------------------------------------------------------------------------------------------
# scripted peers
# ------------------------------------------------------------------------------------------------
class ScriptBandit:
    """Contextual bandit: reset() -> context (arms, dim); step(arm) -> (next context, reward in {0, 1})."""

    def __init__(self, arms: int, dim: int, tracker: "Tracker"):
        self.arms, self.dim = arms, dim
        self.arm = arms
        self.context_dim = (dim,)
        self.single_observation_space = spaces.Box(-1.0, 1.0, (dim,), np.float32)
        self.single_action_space = spaces.Discrete(arms)
        self.tr = tracker
        self.k = 0

    def _ctx(self):
        r = np.random.RandomState(_mix(self.k, 3) % (2**32 - 1))
        return r.uniform(-1, 1, size=(self.arms, self.dim)).astype(np.float32)

    def reset(self):
        self.tr.log.append({"kind": "reset", "owner": self.tr.owner, "phase": self.tr.phase})
        return self._ctx()

    def step(self, action):
        a = int(np.asarray(action).reshape(-1)[0])
        if not (0 <= a < self.arms):
            raise IllegalAction(f"arm {action!r} not in Discrete({self.arms})")
        self.tr.log.append({"kind": "step", "owner": self.tr.owner, "phase": self.tr.phase, "n": 1})
        self.tr.clock.advance(0.01)
        self.k += 1
        return self._ctx(), float(_mix(self.k, a) % 2)


class ScriptPZVec:
    """Synchronous vectorised multi-agent environment with the PettingZooVecEnv surface the multi-agent loops use."""

    def __init__(self, spec: Dict[str, Any], num_envs: int, tracker: "Tracker"):
        self.spec, self.num_envs, self.tr = spec, num_envs, tracker
        self.possible_agents = [f"ag_{i}" for i in range(spec["n_agents"])] if spec.get("homogeneous", True) else ["alpha_0", "beta_0", "gamma_0"][: spec["n_agents"]]
        self.agents = list(self.possible_agents)
        self._obs = gym_obs_space(spec["obs_kind"])
        self._act = spaces.Discrete(4) if spec["act_kind"] == "discrete" else spaces.Box(-1.0, 1.0, (2,), np.float32)
        self.t = [0] * num_envs
        self.ep = [0] * num_envs
        self.len = [1] * num_envs
        self.counter = 0

    def observation_space(self, agent):
        return self._obs

    def action_space(self, agent):
        return self._act

    def single_observation_space(self, agent):
        return self._obs

    def single_action_space(self, agent):
        return self._act

    def _o(self):
        from sim.envs import _gym_obs, _stack

        return {a: _stack([_gym_obs(self._obs, (e * 1000 + self.t[e] + i) % 9973) for e in range(self.num_envs)]) for i, a in enumerate(self.possible_agents)}

    def reset(self, seed=None, options=None):
        for e in range(self.num_envs):
            self.ep[e] += 1
            self.t[e] = 0
            self.len[e] = 1 + _mix(self.spec.get("len_seed", 0), e, self.ep[e]) % self.spec.get("max_len", 5)
        self.tr.log.append({"kind": "reset", "owner": self.tr.owner, "phase": self.tr.phase})
        return self._o(), {a: {} for a in self.possible_agents}

    def step(self, actions: Dict[str, Any]):
        for a in self.possible_agents:
            if a not in actions:
                raise IllegalAction(f"no action for agent {a}")
            arr = np.asarray(actions[a])
            if len(arr) != self.num_envs:
                raise IllegalAction(f"agent {a}: expected {self.num_envs} actions, got shape {arr.shape}")
            for e in range(self.num_envs):
                x = arr[e]
                if isinstance(self._act, spaces.Discrete):
                    if np.asarray(x).size != 1 or not self._act.contains(int(np.asarray(x).reshape(-1)[0])):
                        raise IllegalAction(f"agent {a} sub-env {e}: action {x!r} not in {self._act}")
                else:
                    xx = np.asarray(x, dtype=np.float32)
                    if xx.shape != (2,) or not np.all(np.isfinite(xx)) or np.any(np.abs(xx) > 1.0 + 1e-6):
                        raise IllegalAction(f"agent {a} sub-env {e}: action {x!r} not in {self._act}")
        term = {a: np.zeros(self.num_envs, dtype=bool) for a in self.possible_agents}
        trunc = {a: np.zeros(self.num_envs, dtype=bool) for a in self.possible_agents}
        rew = {a: np.zeros(self.num_envs, dtype=np.float64) for a in self.possible_agents}
        for e in range(self.num_envs):
            self.t[e] += 1
            end = self.t[e] >= self.len[e]
            for i, a in enumerate(self.possible_agents):
                rew[a][e] = ((_mix(self.counter, e, i) % 201) - 100) / 100.0
                if end:
                    (term if self.spec.get("ending", "term") == "term" else trunc)[a][e] = True
            if end:
                self.ep[e] += 1
                self.t[e] = 0
                self.len[e] = 1 + _mix(self.spec.get("len_seed", 0), e, self.ep[e]) % self.spec.get("max_len", 5)
        self.counter += 1
        self.tr.log.append({"kind": "step", "owner": self.tr.owner, "phase": self.tr.phase, "n": self.num_envs})
        self.tr.clock.advance(0.01)
        return self._o(), rew, term, trunc, {a: {} for a in self.possible_agents}

    def close(self):
        pass


class Tracker:
    """Who is acting, in which phase; clone lineage; ground-truth log shared by the scripted peers."""

    def __init__(self):
        self.owner: Any = None
        self.phase = "train"
        self.log: List[Dict[str, Any]] = []
        self.clock = VirtualClock()
        self.parent: Dict[int, int] = {}
        self.keep: List[Any] = []
        self.learn_calls: Dict[int, int] = {}
        self.elite_checks: List[str] = []

    def lineage(self, agent) -> List[int]:
        out = [id(agent)]
        while out[-1] in self.parent:
            out.append(self.parent[out[-1]])
        return out


class _GymTracked(ScriptVecGym):
    """ScriptVecGym whose owner / phase come from the tracker."""

    def __init__(self, spec, num_envs, tracker: Tracker):
        super().__init__(spec, num_envs=num_envs, clock=tracker.clock)
        self.tr = tracker

    def reset(self, seed=None, options=None):
        self.owner, self.phase = self.tr.owner, self.tr.phase
        out = super().reset(seed=seed, options=options)
        self.tr.log.append({"kind": "reset", "owner": self.tr.owner, "phase": self.tr.phase})
        return out

    def step(self, actions):
        self.owner, self.phase = self.tr.owner, self.tr.phase
        out = super().step(actions)
        self.tr.log.append({"kind": "step", "owner": self.tr.owner, "phase": self.tr.phase, "n": self.n})
        return out


@contextlib.contextmanager
def instrumented(tr: Tracker, classes: List[type]):
    """Class-level wrappers (outside /repo): tag the acting agent and the phase, record clone lineage and learn calls."""
    from agilerl.algorithms.core.base import EvolvableAlgorithm
    from agilerl.hpo.mutation import Mutations

    saved = []

    def wrap(cls, name, make):
        orig = cls.__dict__.get(name)
        if orig is None:
            return
        saved.append((cls, name, orig))
        setattr(cls, name, make(orig))

    def mk_get_action(orig):
        def get_action(self, *a, **k):
            tr.owner = id(self)
            if id(self) not in [id(x) for x in tr.keep[-50:]]:
                tr.keep.append(self)
            return orig(self, *a, **k)
        return get_action

    def mk_test(orig):
        def test(self, *a, **k):
            tr.phase = "test"
            try:
                return orig(self, *a, **k)
            finally:
                tr.phase = "train"
        return test

    def mk_learn(orig):
        def learn(self, *a, **k):
            tr.learn_calls[id(self)] = tr.learn_calls.get(id(self), 0) + 1
            if id(self) not in [id(x) for x in tr.keep[-50:]]:
                tr.keep.append(self)
            return orig(self, *a, **k)
        return learn

    def mk_clone(orig):
        def clone(self, *a, **k):
            c = orig(self, *a, **k)
            tr.parent[id(c)] = id(self)
            tr.keep.extend([c, self])
            return c
        return clone

    def mk_mutation(orig):
        def mutation(self, population, pre_training_mut=False):
            before = None
            if not self.mutate_elite and population:
                before = {k: v.detach().clone() for k, v in _policy_state(population[0]).items()}
            out = orig(self, population, pre_training_mut)
            if before is not None and out:
                after = _policy_state(out[0])
                if set(before) != set(after) or any(not torch.equal(before[k], after[k]) for k in before):
                    tr.elite_checks.append("with mutate_elite=False the first member of the population was changed by Mutations.mutation")
            return out
        return mutation

    try:
        for cls in classes:
            wrap(cls, "get_action", mk_get_action)
            wrap(cls, "test", mk_test)
            wrap(cls, "learn", mk_learn)
        wrap(EvolvableAlgorithm, "clone", mk_clone)
        wrap(Mutations, "mutation", mk_mutation)
        yield
    finally:
        for cls, name, orig in reversed(saved):
            setattr(cls, name, orig)


def _policy_state(agent) -> Dict[str, torch.Tensor]:
    pol = agent.get_policy()
    mods = pol if isinstance(pol, list) else [pol]
    out = {}
    for i, m in enumerate(mods):
        for k, v in m.state_dict().items():
            out[f"{i}.{k}"] = v
    return out


# ------------------------------------------------------------------------------------------------
# generator
# ------------------------------------------------------------------------------------------------
def gen(prop: str, rng: random.Random, tier: str) -> Dict[str, Any]:
    loop = rng.choice(LOOPS)
    n_envs = rng.choice([1, 2, 3, 4, 8])
    case: Dict[str, Any] = {"engine": "trainsim", "prop": prop, "loop": loop, "num_envs": n_envs, "pop": rng.choice([1, 2, 3]),
                            "obs_kind": rng.choice(GYM_OBS_KINDS), "evo": rng.random() < 0.6, "elitism": rng.random() < 0.7, "mutate_elite": rng.random() < 0.5,
                            "checkpoint": rng.random() < 0.3, "seed": rng.getrandbits(31), "len_seed": rng.randrange(1000), "max_len": rng.choice([1, 2, 4, 7]),
                            "ending": rng.choice(["term", "trunc", "mixed"]), "batch_size": rng.choice([2, 4, 5, 8]), "learn_step": rng.choice([1, 2, 3, 5, 8]),
                            "gens": rng.choice([1, 2, 2, 3]), "action_mask": rng.random() < 0.3}
    # members whose step counters advance at different rates (different learn_step: mixed populations, or learn_step among the mutable hyper-parameters)
    case["mixed_learn_step"] = rng.random() < 0.4
    case["hp_learn_step"] = rng.random() < 0.4
    # early stopping: every loop returns once all members' mean fitness exceeds `target` and 100 step records exist (i.e. after generation 99)
    if rng.random() < 0.03:
        case["early_stop"] = rng.choice(["always_above", "always_above", "never_above"])
        case.update({"gens": 102, "evo": False, "checkpoint": False, "pop": rng.choice([1, 2]), "mixed_learn_step": False, "num_envs": rng.choice([1, 2]),
                     "learn_step": rng.choice([1, 2]), "max_len": rng.choice([2, 4])})
    if loop == "off_policy":
        case["algo"] = rng.choice(OFF_ALGOS)
        case["memory"] = rng.choice(["uniform", "uniform", "per", "n_step", "per_n_step"]) if case["algo"] == "Rainbow DQN" else "uniform"
        case["learning_delay"] = rng.choice([0, 0, 3])
    elif loop == "on_policy":
        case["algo"] = "PPO"
    elif loop == "offline":
        case["algo"] = "CQN"
        case["num_envs"] = rng.choice([1, 2, 3])
        case["obs_kind"] = rng.choice(["vector", "image"])  # offline datasets are flat arrays
    elif loop == "bandits":
        case["algo"] = rng.choice(["NeuralUCB", "NeuralTS"])
        case["obs_kind"] = "vector"
    elif loop == "ma_off_policy":
        case["algo"] = rng.choice(["MADDPG", "MATD3"])
        case["obs_kind"] = rng.choice(["vector", "vector", "image", "discrete"])
        case["n_agents"] = rng.choice([2, 3])
    else:
        case["algo"] = "IPPO"
        case["obs_kind"] = rng.choice(["vector", "vector", "image", "discrete"])
        case["n_agents"] = rng.choice([2, 3])
        case["homogeneous"] = rng.random() < 0.5
    if case["algo"] in ("DQN", "Rainbow DQN", "CQN", "NeuralUCB", "NeuralTS"):
        case["act_kind"] = "discrete"
    elif case["algo"] in ("DDPG", "TD3"):
        case["act_kind"] = "box"
    else:
        case["act_kind"] = rng.choice(["discrete", "box"])
    case["vectorised"] = not (loop in ("off_policy", "on_policy") and rng.random() < 0.08)
    if not case["vectorised"]:
        case["num_envs"] = 1
    case["ops"] = [{"op": "train"}]
    return case


# ------------------------------------------------------------------------------------------------
# run
# ------------------------------------------------------------------------------------------------
def run(prop: str, case: Dict[str, Any]) -> Dict[str, Any]:
    import warnings

    warnings.filterwarnings("ignore")
    torch.set_num_threads(1)
    ctx = kernel.Ctx(prop, case)
    loc = {"loop": case["loop"], "algo": case["algo"]}
    tmp = tempfile.mkdtemp(prefix="trainsim_", dir="/dev/shm" if os.path.isdir("/dev/shm") else None)
    cwd = os.getcwd()
    try:
        os.chdir(tmp)
        with contextlib.redirect_stdout(io.StringIO()), contextlib.redirect_stderr(io.StringIO()):
            _run(ctx, case, loc, tmp)
    except kernel.HarnessError:
        raise
    except Exception as e:
        info = kernel.classify_exception(e, os.environ.get("VERIF_REPO", "/repo"))
        if info["where"] != "repo":
            raise
        extra = {}
        if isinstance(e, IllegalAction):
            extra["illegal_action"] = True
        cls = f"{prop}/exception:{info['type']}@{info['site']}"
        if not case.get("vectorised", True):
            extra["vectorised"] = False
            cls = f"{prop}/non_vectorised_env:raises"  # see known finding K-C20-1 (test() of every algorithm, on-policy done flags, n-step buffer, discrete obs)
        ctx.report(cls, f"{type(e).__name__}: {str(e)[:300]} (loop {case['loop']}, algo {case['algo']}, obs {case['obs_kind']}, "
                                                                      f"envs {case['num_envs']}, memory {case.get('memory')})", obs_kind=case["obs_kind"], **extra, **loc)
    finally:
        os.chdir(cwd)
        shutil.rmtree(tmp, ignore_errors=True)
    return ctx.result()


def _run(ctx: kernel.Ctx, case: Dict[str, Any], loc: Dict[str, Any], tmp: str) -> None:
    import agilerl.algorithms as ALG
    from agilerl.algorithms.core.registry import HyperparameterConfig, RLParameter
    from agilerl.components.multi_agent_replay_buffer import MultiAgentReplayBuffer
    from agilerl.components.replay_buffer import MultiStepReplayBuffer, PrioritizedReplayBuffer, ReplayBuffer
    from agilerl.hpo.mutation import Mutations
    from agilerl.hpo.tournament import TournamentSelection
    from agilerl.utils.utils import create_population

    loop, algo, n_envs, P = case["loop"], case["algo"], case["num_envs"], case["pop"]
    tr = Tracker()
    spec = {"obs_kind": case["obs_kind"], "act_kind": case["act_kind"], "len_seed": case["len_seed"], "max_len": case["max_len"], "ending": case["ending"],
            "action_mask": case.get("action_mask") and algo in ("DQN", "Rainbow DQN", "PPO"), "n_agents": case.get("n_agents", 2), "homogeneous": case.get("homogeneous", True)}
    seed_all(case["seed"])
    ma = loop.startswith("ma_")
    if loop == "bandits":
        env = ScriptBandit(arms=3, dim=4, tracker=tr)
        obs_space, act_space = env.single_observation_space, env.single_action_space
    elif ma:
        env = ScriptPZVec(spec, n_envs, tr)
        obs_space = [env.observation_space(a) for a in env.possible_agents]
        act_space = [env.action_space(a) for a in env.possible_agents]
    else:
        env = _GymTracked(spec, n_envs if case.get("vectorised", True) else None, tr)
        obs_space, act_space = env.single_observation_space, env.single_action_space
    lr_names = {"lr_actor": RLParameter(min=1e-4, max=1e-2), "lr_critic": RLParameter(min=1e-4, max=1e-2)} if algo in ("DDPG", "TD3", "MADDPG", "MATD3") else {"lr": RLParameter(min=1e-4, max=1e-2)}
    if case.get("hp_learn_step") and algo not in ("NeuralUCB", "NeuralTS", "CQN"):
        lr_names["learn_step"] = RLParameter(min=1, max=16, dtype=int, grow_factor=1.5, shrink_factor=0.75)
    hp = HyperparameterConfig(batch_size=RLParameter(min=2, max=16, dtype=int), **lr_names)
    learn_step = case["learn_step"] if algo not in ("PPO", "IPPO") else max(2, case["learn_step"]) * 2
    INIT_HP = {"BATCH_SIZE": case["batch_size"], "LR": 1e-3, "LR_ACTOR": 1e-3, "LR_CRITIC": 1e-3, "LEARN_STEP": learn_step, "GAMMA": 0.9, "TAU": 0.1, "POLICY_FREQ": 2,
               "N_STEP": 3, "NUM_ATOMS": 11, "V_MIN": -5.0, "V_MAX": 5.0, "UPDATE_EPOCHS": 1, "O_U_NOISE": True, "AGENT_IDS": getattr(env, "possible_agents", None),
               "LAMBDA": 1.0, "REG": 0.000625, "DOUBLE": False, "CHANNELS_LAST": False, "POP_SIZE": P, "GAE_LAMBDA": 0.95, "ACTION_STD_INIT": 0.0, "CLIP_COEF": 0.2,
               "ENT_COEF": 0.01, "VF_COEF": 0.5, "MAX_GRAD_NORM": 0.5, "TARGET_KL": None}
    net_config = {"latent_dim": 16, "head_config": {"hidden_size": [16]}}
    pop = create_population(algo, obs_space, act_space, net_config, INIT_HP, hp_config=hp, population_size=P, num_envs=n_envs)
    if case.get("mixed_learn_step") and P > 1 and hasattr(pop[0], "learn_step"):
        for i, a in enumerate(pop):
            if i % 2 == 1:
                a.learn_step = max(1, learn_step // 2)
        ctx.probe("mixed_learn_step_population")
    classes = [type(pop[0])]
    tournament = mutation = None
    if case["evo"]:
        tournament = TournamentSelection(2, case["elitism"], P, 1)
        mutation = Mutations(no_mutation=0.3, architecture=0.3, new_layer_prob=0.3, parameters=0.2, activation=0.1, rl_hp=0.2, mutate_elite=case["mutate_elite"], rand_seed=None)
        mutation.rng = SimRng(case["seed"])
    # ---- budgets: small, crossing `gens` generations
    if loop in ("off_policy",):
        evo_steps = max(n_envs, learn_step) * 3
        per_gen = (evo_steps // n_envs) * n_envs
    elif loop == "on_policy":
        evo_steps = learn_step * 2
        per_gen = -(-evo_steps // learn_step) * (-(-learn_step // n_envs)) * n_envs
    elif loop == "offline":
        evo_steps = 3
        per_gen = evo_steps
    elif loop == "bandits":
        evo_steps = 4
        per_gen = 6  # episode_steps
    elif loop == "ma_off_policy":
        evo_steps = max(n_envs, learn_step) * 3
        per_gen = None
    else:
        evo_steps = learn_step * 2
        per_gen = None
    gens = case["gens"]
    max_steps = (per_gen * gens) if per_gen else evo_steps * gens
    ckpt = max(1, max_steps // 2) if case["checkpoint"] else None
    ckpt_path = os.path.join(tmp, "ckpt", "pop")
    os.makedirs(os.path.dirname(ckpt_path), exist_ok=True)
    common = dict(INIT_HP=INIT_HP, MUT_P=None, max_steps=max_steps, evo_steps=evo_steps, eval_steps=3, eval_loop=1, tournament=tournament, mutation=mutation,
                  checkpoint=ckpt, checkpoint_path=ckpt_path, wb=False, verbose=False)
    if case.get("early_stop"):
        common["target"] = -1e9 if case["early_stop"] == "always_above" else 1e9
        ctx.probe("early_stopping_configured")
    mods = []
    import importlib

    modname = {"off_policy": "train_off_policy", "on_policy": "train_on_policy", "offline": "train_offline", "bandits": "train_bandits",
               "ma_off_policy": "train_multi_agent_off_policy", "ma_on_policy": "train_multi_agent_on_policy"}[loop]
    mod = importlib.import_module("agilerl.training." + modname)
    saved_time = getattr(mod, "time", None)
    if saved_time is not None:
        mod.time = tr.clock
    ctx.log("world", "config", {k: case[k] for k in ("loop", "algo", "num_envs", "pop", "obs_kind", "evo", "checkpoint")})
    try:
        with instrumented(tr, classes):
            if loop == "off_policy":
                memkind = case.get("memory", "uniform")
                per = memkind in ("per", "per_n_step")
                nstep = memkind in ("n_step", "per_n_step")
                memory = PrioritizedReplayBuffer(64, alpha=0.6) if per else ReplayBuffer(64)
                n_mem = MultiStepReplayBuffer(64, n_step=3, gamma=0.9) if nstep else None
                out = mod.train_off_policy(env, "script", algo, pop, memory, learning_delay=case.get("learning_delay", 0), eps_start=1.0, eps_end=0.1, eps_decay=0.9,
                                           n_step=nstep, per=per, n_step_memory=n_mem, **common)
            elif loop == "on_policy":
                out = mod.train_on_policy(env, "script", algo, pop, **common)
            elif loop == "offline":
                r = np.random.RandomState(case["seed"] % (2**32 - 1))
                N = 24
                from sim.envs import _gym_obs, _stack

                dataset = {"observations": _stack([_gym_obs(obs_space, i) for i in range(N)]) if not isinstance(obs_space, (spaces.Dict, spaces.Tuple)) else None,
                           "actions": r.randint(0, 4, size=(N, 1)), "rewards": r.uniform(-1, 1, size=(N, 1)).astype(np.float32), "terminals": (r.random_sample((N, 1)) < 0.2)}
                if dataset["observations"] is None:
                    raise kernel.HarnessError("offline datasets are flat arrays: dict / tuple observations are not generated")
                memory = ReplayBuffer(64)
                out = mod.train_offline(env, "script", dataset, algo, pop, memory, **common)
            elif loop == "bandits":
                memory = ReplayBuffer(64)
                c2 = dict(common)
                out = mod.train_bandits(env, "script", algo, pop, memory, episode_steps=6, **c2)
            elif loop == "ma_off_policy":
                memory = MultiAgentReplayBuffer(64, ["state", "action", "reward", "next_state", "done"], env.possible_agents)
                out = mod.train_multi_agent_off_policy(env, "script", algo, pop, memory, learning_delay=0, **common)
            else:
                out = mod.train_multi_agent_on_policy(env, "script", algo, pop, **common)
    finally:
        if saved_time is not None:
            mod.time = saved_time
    new_pop, fitnesses = out
    ctx.log("world", "returned", {"gens": len(fitnesses), "steps": [a.steps[-1] for a in new_pop]})
    # ---- accounting oracle -------------------------------------------------------------------
    if len(new_pop) != P:
        ctx.report("C20/population_size", f"returned {len(new_pop)} agents for a population of {P}", **loc)
    idx = [a.index for a in new_pop]
    if len(set(idx)) != len(idx):
        ctx.report("C20/duplicate_index", f"returned agents carry indices {idx}", **loc)
    G = len(fitnesses)
    if loop == "ma_on_policy":
        # this loop returns one fitness record per population member (a dict of per-agent lists), not one per generation
        G = max(len(a.steps) - 1 for a in new_pop)
    # steps per lineage from the ground-truth log (offline: learn calls)
    train_steps: Dict[int, int] = {}
    for rec in tr.log:
        if rec["kind"] == "step" and rec["phase"] == "train":
            train_steps[rec["owner"]] = train_steps.get(rec["owner"], 0) + rec["n"]
    for a in new_pop:
        chain = tr.lineage(a)
        if loop == "offline":
            truth = sum(tr.learn_calls.get(i, 0) for i in chain)
        else:
            truth = sum(train_steps.get(i, 0) for i in chain)
        if a.steps[-1] != truth:
            ctx.report("C20/step_counter", f"agent index {a.index}: steps[-1]={a.steps[-1]} but its lineage took {truth} training-phase environment steps "
                                           f"(loop {loop}, envs {n_envs}, learn_step {learn_step}, evo_steps {evo_steps}, generations {G})", **loc)
            break
        if len(a.fitness) != G:
            ctx.report("C20/fitness_entries", f"agent index {a.index}: {len(a.fitness)} fitness entries after {G} generations", **loc)
            break
    # budget: met now, not met one generation earlier
    def met(vals):
        return (sum(vals) >= max_steps) if loop == "ma_on_policy" else any(v >= max_steps for v in vals)

    now = [a.steps[-1] for a in new_pop]
    if case.get("early_stop") == "always_above" and G < 99:
        if not met(now):  # shorter than the early-stopping horizon: only the budget can have ended it
            ctx.report("C20/stopped_before_budget", f"training returned after {G} generations with steps {now}, budget max_steps={max_steps} not met and fewer than 100 step records", **loc)
    elif case.get("early_stop") == "always_above":
        # the target is exceeded from the first evaluation on: the run ends with the generation that brings the 100th step record (generation 99), budget or not
        if G != 99:
            ctx.report("C20/early_stop", f"target exceeded by every member in every generation, budget {max_steps} ({gens} generations): training ran {G} generations, "
                                         f"the early-stopping rule ends it after generation 99 (100 step records)", **loc)
        else:
            ctx.probe("stopped_early_at_generation_99")
    elif not met(now):
        ctx.report("C20/stopped_before_budget", f"training returned with steps {now}, budget max_steps={max_steps} ({'summed' if loop == 'ma_on_policy' else 'per agent'}) not met", **loc)
    prev = [a.steps[-3] if len(a.steps) >= 3 else 0 for a in new_pop]
    if G >= 2 and met(prev):
        ctx.report("C20/stopped_late", f"budget max_steps={max_steps} was already met one generation earlier (steps then {prev}, now {now})", **loc)
    for msg in tr.elite_checks[:1]:
        ctx.report("C20/elite_changed", msg, **loc)
    if case["checkpoint"]:
        files = sorted(glob.glob(ckpt_path + "_*.pt"))
        if not files and new_pop[0].steps[-1] < ckpt:
            ctx.probe("checkpoint_threshold_not_reached_by_first_member")
        elif not files:
            ctx.report("C20/checkpoint_missing", f"checkpoint={ckpt} but no checkpoint file was written (steps {now})", **loc)
        else:
            ctx.probe("checkpoint_written")
            loaded = type(new_pop[0]).load(files[0])
            if type(loaded) is not type(new_pop[0]):
                ctx.report("C20/checkpoint_load", f"loading {os.path.basename(files[0])} gave {type(loaded).__name__}", **loc)
    if G >= 2:
        ctx.probe("several_generations")
    if case["evo"]:
        ctx.probe("tournament_and_mutation")
    ctx.nontrivial = G >= 1
    ctx.sim_time = tr.clock.now - 1000.0
    ctx.steps += sum(r["n"] for r in tr.log if r["kind"] == "step")
    ctx.state((loop, algo, case["obs_kind"], n_envs, learn_step > n_envs, case.get("memory"), case["evo"], G))


def warmup() -> None:
    import agilerl.training.train_bandits  # noqa: F401
    import agilerl.training.train_multi_agent_off_policy  # noqa: F401
    import agilerl.training.train_multi_agent_on_policy  # noqa: F401
    import agilerl.training.train_off_policy  # noqa: F401
    import agilerl.training.train_offline  # noqa: F401
    import agilerl.training.train_on_policy  # noqa: F401
    import agilerl.utils.utils  # noqa: F401


def info(prop: str) -> Dict[str, Any]:
    return {
        "rule": "one case = training function x algorithm it dispatches on x observation family x sub-environments vs learn_step x memory kind x tournament/mutation on-off x "
                "checkpointing x budget crossing 1-3 generations, run to completion on a strict scripted environment; non-trivial = at least one generation completed; "
                "distinct = distinct event-log digest",
        "expected_probes": ["several_generations", "tournament_and_mutation", "checkpoint_written"],
        "state_measure": "(loop, algorithm, observation family, envs, learn_step > envs, memory kind, evolution on/off, generations) tuples",
        "components_real": ["agilerl.training.train_off_policy / train_on_policy / train_offline / train_bandits / train_multi_agent_off_policy / train_multi_agent_on_policy",
                            "agilerl.utils.utils (create_population, tournament_selection_and_mutation, save_population_checkpoint)", "agilerl.components (buffers, Sampler)",
                            "agilerl.hpo (TournamentSelection, Mutations)", "all algorithms' get_action / learn / test / save_checkpoint / load"],
        "components_stub": ["environments (ScriptVecGym, ScriptPZVec, ScriptBandit: strict, logged)", "time module of the training modules (virtual clock)", "Mutations.rng (SimRng)",
                            "class-level wrappers around get_action / test / learn / clone / Mutations.mutation installed by the simulator for tagging only"],
        "assumptions": ["CPU, no accelerate / wandb; checkpoints go to a private temp dir", "budgets are chosen so that each generation takes at least one environment step per agent"],
    }


def simplifiers(prop: str):
    import copy

    def smaller(case):
        out = []
        for k, v in (("pop", 1), ("gens", 1), ("evo", False), ("checkpoint", False), ("action_mask", False)):
            if case.get(k) != v and case.get(k):
                c = copy.deepcopy(case)
                c[k] = v
                out.append(c)
        return out

    return [smaller]
