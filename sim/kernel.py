"""Simulation kernel: PRNG tree, event log + digest, violation records, per-run context.

One integer (VERIF_SEED) decides everything: every generated case is a pure function of
(VERIF_SEED, property id, run index) and every executed run is a pure function of (case, code).
Nothing in here reads a real clock or draws from a PRNG while logging.
"""
from __future__ import annotations

import hashlib
import json
import random
import traceback
from collections import Counter
from typing import Any, Dict, List, Optional

DEFAULT_SEED = 20260926


def derive(seed: int, *path: Any) -> int:
    """Child seed = first 8 bytes of SHA-256 over the path (stable across processes / hash seeds)."""
    h = hashlib.sha256(repr((int(seed),) + tuple(str(p) for p in path)).encode()).digest()
    return int.from_bytes(h[:8], "big")


def child_rng(seed: int, *path: Any) -> random.Random:
    return random.Random(derive(seed, *path))


class HarnessError(Exception):
    """Something went wrong in the machinery itself (never reported as success or as a violation)."""


class StopRun(Exception):
    """Raised by an engine to end a run early after a violation made the remaining history meaningless."""


def _compact(x: Any) -> Any:
    """JSON-able, order-stable rendering used for digests and replay files."""
    import numpy as np

    try:
        import torch
    except Exception:  # pragma: no cover
        torch = None
    if isinstance(x, dict):
        return {str(k): _compact(v) for k, v in sorted(x.items(), key=lambda kv: str(kv[0]))}
    if isinstance(x, (list, tuple)):
        return [_compact(v) for v in x]
    if isinstance(x, (np.generic,)):
        return x.item()
    if isinstance(x, np.ndarray):
        return {"nd": list(x.shape), "h": hashlib.sha1(np.ascontiguousarray(x).tobytes()).hexdigest()[:12]}
    if torch is not None and isinstance(x, torch.Tensor):
        a = x.detach().cpu().contiguous().numpy()
        return {"t": list(a.shape), "h": hashlib.sha1(a.tobytes()).hexdigest()[:12]}
    if isinstance(x, float):
        return repr(x)
    if isinstance(x, (int, str, bool)) or x is None:
        return x
    return repr(x)


class Ctx:
    """Per-run context handed to an engine: event log, violation list, probes and fault counters."""

    def __init__(self, prop: str, case: Dict[str, Any]):
        self.prop = prop
        self.case = case
        self.seq = 0
        self._h = hashlib.sha1()
        self.events_tail: List[Any] = []
        self.violations: List[Dict[str, Any]] = []
        self.probes: Counter = Counter()
        self.faults: Counter = Counter()
        self.sim_time = 0.0
        self.steps = 0
        self.nontrivial = False
        self.state_keys: set = set()
        self.op_index: Optional[int] = None

    # -- event log ---------------------------------------------------------------------------
    def log(self, actor: str, kind: str, payload: Any = None) -> None:
        rec = [self.seq, actor, kind, _compact(payload)]
        self.seq += 1
        self._h.update(json.dumps(rec, sort_keys=True).encode())
        if len(self.events_tail) < 400:
            self.events_tail.append(rec)

    @property
    def digest(self) -> str:
        return self._h.hexdigest()

    # -- oracle interface --------------------------------------------------------------------
    def report(self, cls: str, msg: str, **locator: Any) -> None:
        """Record a violation of class `cls` (stable string) with a locator used for known-finding matching."""
        v = {
            "class": cls,
            "msg": msg[:2000],
            "locator": {k: _compact(v) for k, v in locator.items()},
            "op_index": self.op_index,
        }
        self.log("oracle", "violation", {"class": cls, "locator": v["locator"]})
        self.violations.append(v)

    def probe(self, name: str, n: int = 1) -> None:
        self.probes[name] += n

    def fault(self, kind: str, n: int = 1) -> None:
        self.faults[kind] += n

    def state(self, key: Any) -> None:
        """Abstract-state coverage measure (distinct keys are counted across the batch)."""
        self.state_keys.add(hashlib.sha1(repr(key).encode()).hexdigest()[:12])

    def result(self) -> Dict[str, Any]:
        import os

        if os.environ.get("VERIF_DUMP_EVENTS"):
            import json as _json

            idx = self.case.get("_run", {}).get("index", "x")
            with open(os.path.join(os.environ["VERIF_DUMP_EVENTS"], f"{self.prop}_{idx}_{os.getpid()}.json"), "w") as f:
                _json.dump(self.events_tail, f)
        return {
            "digest": self.digest,
            "violations": self.violations,
            "probes": dict(self.probes),
            "faults": dict(self.faults),
            "sim_time": self.sim_time,
            "steps": self.steps,
            "events": self.seq,
            "nontrivial": bool(self.nontrivial),
            "state_keys": sorted(self.state_keys),
        }


def classify_exception(exc: BaseException, repo_root: str) -> Dict[str, str]:
    """Where was an exception raised: inside the repository under test or in harness code?

    Returns {"where": "repo"|"harness", "site": "file.py:function", "type": ...}. The innermost frame
    that lies in `<repo_root>/agilerl` decides the site; an exception whose innermost frames are in third-party
    code called from the repository still counts as 'repo' (the repository made the call)."""
    tb = traceback.extract_tb(exc.__traceback__)
    site = None
    innermost_repo = None
    for i, fr in enumerate(tb):
        if fr.filename.startswith(repo_root.rstrip("/") + "/agilerl"):
            innermost_repo = i
            site = f"{fr.filename.split('/agilerl/', 1)[1]}:{fr.name}"
    if innermost_repo is None:
        return {"where": "harness", "site": "", "type": type(exc).__name__}
    # frames after the innermost repo frame that belong to the harness (callbacks into scripted envs) make it
    # a harness-raised exception only when the exception type is one of ours; engines handle that themselves.
    return {"where": "repo", "site": site, "type": type(exc).__name__}


def viol_key(v: Dict[str, Any]) -> str:
    return v["class"] + "|" + json.dumps(v.get("locator", {}), sort_keys=True)
