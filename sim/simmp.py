"""In-process fake of the multiprocessing pieces AsyncPettingZooVecEnv uses: context, Pipe (handles with fork-dup
semantics), Process, Queue, Array, and a virtual `time` module. Semantics mirror real multiprocessing.connection:
send to a dead peer -> BrokenPipeError, recv on an empty pipe with a dead peer -> EOFError, poll on a dead peer -> True,
any call on a closed handle -> OSError."""
from __future__ import annotations

import multiprocessing as real_mp
from collections import deque
from multiprocessing.sharedctypes import typecode_to_type
from typing import Any, List, Optional

import numpy as np

from sim.sched import Scheduler, Task


class Endpoint:
    def __init__(self, name: str):
        self.name = name
        self.inbox: deque = deque()
        self.open_handles = 0
        self.peer: Optional["Endpoint"] = None

    @property
    def dead(self) -> bool:
        return self.open_handles <= 0


class Conn:
    """A handle on an endpoint (a file descriptor). fork dup()s handles; an endpoint dies with its last handle."""

    def __init__(self, sim: "SimMP", ep: Endpoint):
        self.sim = sim
        self.ep = ep
        self._closed = False
        ep.open_handles += 1
        self.owner = sim.sched.current  # the process (scheduler task) whose descriptor table holds this handle
        sim.handles.append(self)

    def dup(self) -> "Conn":
        return Conn(self.sim, self.ep)

    @property
    def closed(self) -> bool:
        return self._closed

    def _check(self):
        if self._closed:
            raise OSError("handle is closed")

    def send(self, obj: Any) -> None:
        self._check()
        self.sim.sched.yield_(f"send on {self.ep.name}")
        self._check()
        if self.ep.peer.dead:
            raise BrokenPipeError(32, "Broken pipe")
        self.ep.peer.inbox.append(obj)
        self.sim.count("pipe_send")

    def recv(self) -> Any:
        self._check()
        ep = self.ep
        self.sim.sched.block(lambda: bool(ep.inbox) or ep.peer.dead or self._closed, None, what=f"recv on {ep.name}")
        self._check()
        if ep.inbox:
            return ep.inbox.popleft()
        raise EOFError()

    def poll(self, timeout: Optional[float] = 0.0) -> bool:
        self._check()
        ep = self.ep
        ok = self.sim.sched.block(lambda: bool(ep.inbox) or ep.peer.dead, timeout, what=f"poll on {ep.name}")
        if not ok:
            self.sim.count("poll_timeout")
        return bool(ok)

    def close(self) -> None:
        if not self._closed:
            self._closed = True
            self.ep.open_handles -= 1


class SimQueue:
    def __init__(self, sim: "SimMP"):
        self.sim = sim
        self.items: deque = deque()

    def put(self, obj: Any) -> None:
        self.sim.sched.yield_("queue put")
        self.items.append(obj)

    def get(self, block: bool = True, timeout: Optional[float] = None) -> Any:
        ok = self.sim.sched.block(lambda: bool(self.items), timeout, what="error queue get")
        if not ok:
            import queue

            raise queue.Empty()
        return self.items.popleft()

    def empty(self) -> bool:
        return not self.items


PIPE_BUF_BYTES = 65536


class SimSimpleQueue(SimQueue):
    """multiprocessing.SimpleQueue: no feeder thread, put() writes straight into an OS pipe and blocks while the pipe (64 KiB on Linux) is
    full - unlike Queue.put, which hands the object to a background thread and returns at once."""

    def __init__(self, sim: "SimMP"):
        super().__init__(sim)
        self.sizes: deque = deque()

    def put(self, obj: Any) -> None:
        import pickle

        try:
            n = len(pickle.dumps(obj, protocol=pickle.HIGHEST_PROTOCOL))
        except Exception:
            n = 512
        # a message larger than the whole buffer can only be written while somebody reads: it needs an empty pipe *and* then blocks until read;
        # modelled as "fits only into an empty pipe"
        self.sim.sched.block(lambda: (sum(self.sizes) + n <= PIPE_BUF_BYTES) or not self.sizes and n <= PIPE_BUF_BYTES, None, what="SimpleQueue put (pipe full)")
        self.items.append(obj)
        self.sizes.append(n)
        self.sim.count("simple_queue_put")

    def get(self, block: bool = True, timeout: Optional[float] = None) -> Any:
        x = super().get(block, timeout)
        self.sizes.popleft()
        return x

    def close(self) -> None:
        pass


class SimArray:
    def __init__(self, typecode: str, n: int):
        if typecode not in typecode_to_type:
            raise KeyError(typecode)  # what multiprocessing.sharedctypes does for an unsupported typecode
        self.arr = np.zeros(int(n), dtype=np.dtype(typecode_to_type[typecode]))

    def get_obj(self):
        return self.arr


class SimProcess:
    def __init__(self, sim: "SimMP", target, name: str, args: tuple):
        self.sim = sim
        self.target = target
        self.name = name
        self.args = args
        self.daemon = False
        self.task: Optional[Task] = None
        self.exitcode = None

    def start(self) -> None:
        # fork: the child gets its own copy of every descriptor it was handed
        child_handles: List[Conn] = []
        new_args = []
        for a in self.args:
            if isinstance(a, Conn):
                d = a.dup()
                child_handles.append(d)
                new_args.append(d)
            else:
                new_args.append(a)
        if self.sim.fork_inherit:
            # start method "fork" (the Linux default, and what the class uses when no context is named): the child inherits a copy
            # of EVERY descriptor open in the forking process at this instant, not only the ones it is handed; the copies it does
            # not know about stay open until it exits and keep their pipe ends alive
            me = self.sim.sched.current
            passed = [a for a in self.args if isinstance(a, Conn)]
            for h in list(self.sim.handles):
                if not h._closed and h.owner is me and not any(h is q for q in passed):
                    child_handles.append(h.dup())
                    self.sim.count("fork_inherited_handle")
        self.task = self.sim.sched.spawn(self.name, self.target, tuple(new_args))
        for h in child_handles:
            h.owner = self.task
        self.task.exit_hooks.append(lambda: [h.close() for h in child_handles])
        self.sim.processes.append(self)
        self.sim.sched.yield_("process start")

    def is_alive(self) -> bool:
        return self.task is not None and not self.task.done

    def terminate(self) -> None:
        if self.task is not None:
            self.sim.sched.kill(self.task)
            self.sim.count("terminate")

    kill = terminate

    def join(self, timeout: Optional[float] = None) -> None:
        if self.task is None:
            return
        t = self.task
        self.sim.sched.block(lambda: t.done, timeout, what=f"join {self.name}")


class SimCtx:
    def __init__(self, sim: "SimMP"):
        self.sim = sim

    def Pipe(self, duplex: bool = True):
        n = len(self.sim.endpoints) // 2
        a, b = Endpoint(f"parent_end[{n}]"), Endpoint(f"child_end[{n}]")
        a.peer, b.peer = b, a
        self.sim.endpoints += [a, b]
        return Conn(self.sim, a), Conn(self.sim, b)

    def Process(self, target=None, name: str = "proc", args: tuple = (), kwargs=None, daemon=None):
        return SimProcess(self.sim, target, name, args)

    def Queue(self, maxsize: int = 0):
        return SimQueue(self.sim)

    def SimpleQueue(self):
        return SimSimpleQueue(self.sim)

    def Array(self, typecode: str, n: int, lock: bool = True):
        return SimArray(typecode, n)


class SimMP:
    """Stands in for the name `mp` inside agilerl.vector.pz_async_vec_env."""

    TimeoutError = real_mp.TimeoutError
    Process = real_mp.Process
    Queue = real_mp.Queue

    def __init__(self, sched: Scheduler, counter=None, fork_inherit: bool = False):
        self.sched = sched
        self.fork_inherit = fork_inherit
        self.handles: List[Conn] = []
        self.endpoints: List[Endpoint] = []
        self.processes: List[SimProcess] = []
        self._counter = counter

    def count(self, what: str) -> None:
        if self._counter is not None:
            self._counter(what)

    def get_context(self, method: Optional[str] = None) -> SimCtx:
        return SimCtx(self)


class SimTime:
    """Stands in for the name `time`: every deadline reads the simulated clock."""

    def __init__(self, sched: Scheduler):
        self.sched = sched

    def perf_counter(self) -> float:
        return self.sched.now

    def time(self) -> float:
        return self.sched.now

    def monotonic(self) -> float:
        return self.sched.now

    def sleep(self, d: float) -> None:
        self.sched.sleep(d)


class NpProxy:
    """Stands in for the name `np`: copying into shared memory is a scheduling point (late writers vs client reads)."""

    def __init__(self, sched: Scheduler, real_np):
        self._np = real_np
        self._sched = sched

    def copyto(self, dst, src, *a, **k):
        self._sched.yield_("copy to shared memory")
        return self._np.copyto(dst, src, *a, **k)

    def __getattr__(self, name):
        return getattr(self._np, name)
