"""Scripted environments: pure functions of (seed, history) that keep a ground-truth log.

ScriptPZ       PettingZoo ParallelEnv with scripted episode lengths / endings / leaving agents / faults / delays
ScriptVecGym   gymnasium-style vector environment for the single-agent training loops (see trainsim)
"""
from __future__ import annotations

from typing import Any, Dict, List, Optional, Tuple

import numpy as np
from gymnasium import spaces

PZ_OBS_KINDS = ["vec_f32", "vec_f64", "vec_i64", "image_u8", "discrete", "dict", "tuple"]


class IllegalAction(Exception):
    pass


class EnvFault(Exception):
    pass


class PairFault(Exception):
    """An environment's own exception class whose constructor needs two arguments (error code, text) - not unusual for simulator back-ends."""

    def __init__(self, code, text):
        super().__init__(code, text)
        self.code, self.text = code, text


def make_fault(name: str, msg: str) -> BaseException:
    cls = FAULT_EXCEPTIONS[name]
    return cls(17, msg) if cls is PairFault else cls(msg)


FAULT_EXCEPTIONS = {
    "PairFault": PairFault,
    "ValueError": ValueError,
    "RuntimeError": RuntimeError,
    "KeyError": KeyError,
    "EnvFault": EnvFault,
    "ZeroDivisionError": ZeroDivisionError,
}


def _mix(*xs: int) -> int:
    h = 1469598103934665603
    for x in xs:
        h ^= (int(x) + 0x9E3779B97F4A7C15) & 0xFFFFFFFFFFFFFFFF
        h = (h * 1099511628211) & 0xFFFFFFFFFFFFFFFF
    return h


def pz_obs_space(kind: str) -> spaces.Space:
    if kind == "vec_f32":
        return spaces.Box(-1e6, 1e6, (3,), np.float32)
    if kind == "vec_f64":
        return spaces.Box(-1e6, 1e6, (2,), np.float64)
    if kind == "vec_i64":
        return spaces.Box(-(10**6), 10**6, (2,), np.int64)
    if kind == "image_u8":
        return spaces.Box(0, 255, (2, 3, 3), np.uint8)
    if kind == "discrete":
        return spaces.Discrete(9)
    if kind == "dict":
        return spaces.Dict({"im": spaces.Box(0, 255, (1, 2, 2), np.uint8), "v": spaces.Box(-1e6, 1e6, (2,), np.float32)})
    if kind == "tuple":
        return spaces.Tuple((spaces.Box(-1e6, 1e6, (2,), np.float32), spaces.Box(0, 255, (1, 2, 2), np.uint8)))
    raise ValueError(kind)


def _obs_value(space: spaces.Space, code: int):
    """Observation whose every component encodes `code` (an integer < 2**20)."""
    if isinstance(space, spaces.Box):
        if space.dtype == np.uint8:
            return np.full(space.shape, code % 251, dtype=np.uint8)
        if np.issubdtype(space.dtype, np.integer):
            return np.full(space.shape, code, dtype=space.dtype)
        return (np.full(space.shape, float(code), dtype=space.dtype) + np.arange(int(np.prod(space.shape))).reshape(space.shape).astype(space.dtype) * 0.25)
    if isinstance(space, spaces.Discrete):
        return int(code % space.n)
    if isinstance(space, spaces.Dict):
        return {k: _obs_value(s, code) for k, s in space.spaces.items()}
    if isinstance(space, spaces.Tuple):
        return tuple(_obs_value(s, code) for s in space.spaces)
    raise ValueError(space)


class ScriptPZ:
    """Scripted PettingZoo ParallelEnv. Behaviour is a pure function of (spec, seed, episode number, step, actions)."""

    metadata = {"name": "script_pz_v0", "render_modes": []}
    render_mode = None

    def __init__(self, spec: Dict[str, Any], env_index: int = 0, world: Any = None):
        self.spec = spec
        self.env_index = env_index
        self.world = world  # None for the sequential reference; else carries the scheduler, fault plan and delays
        n = spec["n_agents"]
        self.possible_agents = [f"a_{i}" for i in range(n)]
        self.agents: List[str] = []
        self._obs_space = pz_obs_space(spec["obs_kind"])
        self._act_space = spaces.Discrete(4) if spec["act_kind"] == "discrete" else spaces.Box(-1.0, 1.0, (2,), np.float32)
        self.seed_value = 1000 + env_index
        self.episode = -1
        self.t = 0
        self.length = 1
        self.calls = {"reset": 0, "step": 0, "call": 0, "setattr": 0}
        self.closed = False
        self.log: List[Tuple] = []
        self._fragile = 0

    # ---- spaces ------------------------------------------------------------------------------
    def observation_space(self, agent: str) -> spaces.Space:
        return self._obs_space

    def action_space(self, agent: str) -> spaces.Space:
        return self._act_space

    @property
    def unwrapped(self):
        return self

    # ---- scripted behaviour ----------------------------------------------------------------
    def _code(self, agent_idx: int) -> int:
        return ((self.seed_value % 89) * 4000 + (self.episode % 40) * 100 + self.t * 4 + agent_idx) % (2**20)

    def _episode_length(self) -> int:
        return 1 + _mix(self.seed_value, self.episode, self.spec.get("len_seed", 0)) % self.spec.get("max_len", 4)

    def _leave_step(self, agent_idx: int) -> Optional[int]:
        if not self.spec.get("leave") or agent_idx == 0:
            return None
        s = self.length - agent_idx
        return s if s >= 1 else None

    def _fault(self, command: str) -> None:
        self.calls[command] += 1
        w = self.world
        if w is None:
            return
        k = (self.env_index, command, self.calls[command])
        d = w.delays.get(k)
        if d:
            w.slept(self.env_index, d)
            w.sched.sleep(d)
        f = w.faults.get(k)
        if f is None:
            return
        w.fired(k, f)
        if f["kind"] == "raise":
            raise make_fault(f["exc"], f["msg"])
        if f["kind"] == "sleep":
            w.slept(self.env_index, f["d"])
            w.sched.sleep(f["d"])
        elif f["kind"] == "die":
            from sim.sched import Killed

            raise Killed()

    def reset(self, seed: Optional[int] = None, options: Optional[dict] = None):
        self._fault("reset")
        if seed is not None:
            self.seed_value = int(seed)
            self.episode = -1
        if options and "episode" in options:
            self.episode = int(options["episode"]) - 1  # reset options are part of the interface: "start with episode number k"
        self.episode += 1
        self.t = 0
        self.length = self._episode_length()
        self.agents = list(self.possible_agents)
        obs = {a: _obs_value(self._obs_space, self._code(i)) for i, a in enumerate(self.possible_agents)}
        info = {a: {"t": 0, "ep": self.episode} for a in self.possible_agents}
        self.log.append(("reset", self.seed_value, self.episode))
        return obs, info

    def step(self, actions: Dict[str, Any]):
        self._fault("step")
        self.t += 1
        obs, rew, term, trunc, info = {}, {}, {}, {}, {}
        end = self.t >= self.length
        present = list(self.agents)
        for a in present:
            i = self.possible_agents.index(a)
            act = actions.get(a)
            if act is None:
                raise IllegalAction(f"no action for live agent {a}")
            arr = np.asarray(act)
            if not self._act_space.contains(arr.astype(self._act_space.dtype) if isinstance(self._act_space, spaces.Box) else int(arr)):
                raise IllegalAction(f"action {act!r} of {a} not in {self._act_space}")
            echo = float(arr.reshape(-1)[0])
            obs[a] = _obs_value(self._obs_space, self._code(i))
            rew[a] = float(self.t + 0.25 * i + 0.01 * echo)
            leave = self._leave_step(i)
            leaving = leave is not None and self.t == leave and not end
            kind = self.spec["ending"]
            term[a] = bool((end and (kind == "term" or (kind == "mixed" and i == 0))) or leaving)
            trunc[a] = bool(end and (kind == "trunc" or (kind == "mixed" and i != 0)))
            info[a] = {"t": self.t, "ep": self.episode}
        self.agents = [a for a in present if not (term[a] or trunc[a])]
        self.log.append(("step", self.episode, self.t, {a: np.asarray(actions[a]).tolist() for a in present}))
        return obs, rew, term, trunc, info

    def close(self) -> None:
        self.closed = True

    # ---- remote-call surface -----------------------------------------------------------
    def probe_call(self, x: int = 0) -> int:
        self._fault("call")
        return 100 * self.env_index + x

    @property
    def fragile(self) -> int:
        return self._fragile

    @fragile.setter
    def fragile(self, v: int) -> None:
        self._fault("setattr")
        self._fragile = v


# ==================================================================================================
# ScriptVecGym: gymnasium-style vector environment for the single-agent training loops
# ==================================================================================================
GYM_OBS_KINDS = ["vector", "image", "dict", "tuple", "discrete"]


def gym_obs_space(kind: str) -> spaces.Space:
    if kind == "vector":
        return spaces.Box(-1e6, 1e6, (3,), np.float32)
    if kind == "image":
        return spaces.Box(0.0, 1.0, (3, 8, 8), np.float32)
    if kind == "dict":
        return spaces.Dict({"v": spaces.Box(-1e6, 1e6, (2,), np.float32), "im": spaces.Box(0.0, 1.0, (3, 8, 8), np.float32)})
    if kind == "tuple":
        return spaces.Tuple((spaces.Box(-1e6, 1e6, (2,), np.float32), spaces.Box(-1e6, 1e6, (3,), np.float32)))
    if kind == "dict_vec":
        return spaces.Dict({"v": spaces.Box(-1e6, 1e6, (2,), np.float32), "w": spaces.Box(-1e6, 1e6, (3,), np.float32)})
    if kind == "discrete":
        return spaces.Discrete(6)
    raise ValueError(kind)


def _gym_obs(space: spaces.Space, gid: int):
    """Observation whose first component of every vector leaf encodes the global transition id (images encode it mod 251 / 251)."""
    if isinstance(space, spaces.Box):
        if len(space.shape) == 3:
            return np.full(space.shape, (gid % 251) / 251.0, dtype=space.dtype)
        v = np.full(space.shape, float(gid), dtype=space.dtype)
        return v
    if isinstance(space, spaces.Discrete):
        return np.int64(gid % space.n)
    if isinstance(space, spaces.Dict):
        return {k: _gym_obs(s, gid) for k, s in space.spaces.items()}
    if isinstance(space, spaces.Tuple):
        return tuple(_gym_obs(s, gid) for s in space.spaces)
    raise ValueError(space)


def _stack(obs_list):
    o0 = obs_list[0]
    if isinstance(o0, dict):
        return {k: np.stack([o[k] for o in obs_list]) for k in o0}
    if isinstance(o0, tuple):
        return tuple(np.stack([o[i] for o in obs_list]) for i in range(len(o0)))
    return np.stack(obs_list)


class ScriptVecGym:
    """Vector environment (same-step auto-reset) whose behaviour is a pure function of (spec, call history). Strict: raises
    IllegalAction for actions outside the action space or masked actions. Keeps a ground-truth log of every transition
    with the tag of whoever was acting (set by the simulator through `.owner` / `.phase`)."""

    def __init__(self, spec: Dict[str, Any], num_envs: Optional[int] = 2, clock: Any = None):
        self.spec = spec
        self.vectorised = num_envs is not None
        self.n = num_envs if num_envs is not None else 1
        if self.vectorised:
            self.num_envs = self.n
        self.single_observation_space = gym_obs_space(spec["obs_kind"])
        self.single_action_space = spaces.Discrete(4) if spec["act_kind"] == "discrete" else spaces.Box(-1.0, 1.0, (2,), np.float32)
        self.observation_space = self.single_observation_space
        self.action_space = self.single_action_space
        self.clock = clock
        self.owner: Any = None
        self.phase = "train"
        self.counter = [0] * self.n       # transitions produced per sub-env
        self.episode = [0] * self.n
        self.t = [0] * self.n
        self.length = [1] * self.n
        self.resets = 0
        self.log: List[Dict[str, Any]] = []
        self.mask_on = bool(spec.get("action_mask")) and spec["act_kind"] == "discrete"
        self.last_mask: Optional[np.ndarray] = None

    def _gid(self, e: int) -> int:
        return e * 100000 + self.counter[e]

    def _len(self, e: int) -> int:
        return 1 + _mix(self.spec.get("len_seed", 0), e, self.episode[e], self.resets) % self.spec.get("max_len", 5)

    def _mask(self) -> Optional[np.ndarray]:
        if not self.mask_on:
            return None
        m = np.ones((self.n, 4), dtype=np.int8)
        for e in range(self.n):
            m[e, _mix(e, self.counter[e], 17) % 4] = 0
        self.last_mask = m
        return m

    def _info(self) -> Dict[str, Any]:
        m = self._mask()
        if m is None:
            return {}
        return {"action_mask": m if self.vectorised else m[0]}

    def _out_obs(self, obs_list):
        return _stack(obs_list) if self.vectorised else obs_list[0]

    def reset(self, seed: Optional[int] = None, options: Optional[dict] = None):
        self.resets += 1
        for e in range(self.n):
            self.episode[e] += 1
            self.t[e] = 0
            self.length[e] = self._len(e)
        if self.clock is not None:
            self.clock.advance(0.01)
        self.log.append({"kind": "reset", "owner": self.owner, "phase": self.phase})
        return self._out_obs([_gym_obs(self.single_observation_space, self._gid(e)) for e in range(self.n)]), self._info()

    def step(self, actions):
        acts = np.asarray(actions)
        if not self.vectorised:
            acts = acts[None] if acts.ndim == (0 if isinstance(self.single_action_space, spaces.Discrete) else 1) else acts
        if len(acts) != self.n:
            raise IllegalAction(f"expected {self.n} actions, got shape {acts.shape}")
        obs, rew, term, trunc = [], [], [], []
        for e in range(self.n):
            a = acts[e]
            if isinstance(self.single_action_space, spaces.Discrete):
                if np.asarray(a).size != 1 or not self.single_action_space.contains(int(np.asarray(a).reshape(-1)[0])):
                    raise IllegalAction(f"action {a!r} for sub-env {e} is not in {self.single_action_space}")
                if self.mask_on and self.last_mask is not None and self.last_mask[e, int(np.asarray(a).reshape(-1)[0])] == 0:
                    raise IllegalAction(f"masked action {int(np.asarray(a).reshape(-1)[0])} chosen in sub-env {e} (mask {self.last_mask[e].tolist()})")
                echo = float(np.asarray(a).reshape(-1)[0])
            else:
                aa = np.asarray(a, dtype=np.float32)
                if aa.shape != (2,) or not np.all(np.isfinite(aa)) or np.any(aa < -1.0 - 1e-6) or np.any(aa > 1.0 + 1e-6):
                    raise IllegalAction(f"action {a!r} for sub-env {e} is not in {self.single_action_space}")
                echo = float(aa[0])
            gid = self._gid(e)
            self.t[e] += 1
            self.counter[e] += 1
            end = self.t[e] >= self.length[e]
            kind = self.spec.get("ending", "term")
            te = bool(end and (kind == "term" or (kind == "mixed" and self.episode[e] % 2 == 0)))
            tr = bool(end and not te)
            r = float(((_mix(gid, 5) % 2001) - 1000) / 500.0)
            self.log.append({"kind": "step", "env": e, "gid": gid, "action": np.asarray(a).tolist(), "reward": r, "end": end, "terminated": te, "owner": self.owner,
                             "phase": self.phase, "episode": self.episode[e]})
            if end:
                self.episode[e] += 1
                self.t[e] = 0
                self.length[e] = self._len(e)
            obs.append(_gym_obs(self.single_observation_space, self._gid(e)))
            rew.append(r)
            term.append(te)
            trunc.append(tr)
        if self.clock is not None:
            self.clock.advance(0.01)
        if self.vectorised:
            return _stack(obs), np.asarray(rew, dtype=np.float64), np.asarray(term), np.asarray(trunc), self._info()
        return obs[0], rew[0], term[0], trunc[0], self._info()

    def close(self) -> None:
        pass


def decode_gid(obs_row, space: spaces.Space) -> Optional[int]:
    """Global transition id encoded in one observation row (None if the space cannot carry it exactly)."""
    if isinstance(space, spaces.Box) and len(space.shape) == 1:
        return int(round(float(np.asarray(obs_row).reshape(-1)[0])))
    if isinstance(space, spaces.Dict):
        for k, s in space.spaces.items():
            g = decode_gid(obs_row[k], s)
            if g is not None:
                return g
    if isinstance(space, spaces.Tuple):
        for i, s in enumerate(space.spaces):
            g = decode_gid(obs_row[i], s)
            if g is not None:
                return g
    return None


class VirtualClock:
    """Stands in for the names `time` / `datetime` inside the training modules."""

    def __init__(self):
        self.now = 1000.0

    def advance(self, d: float) -> None:
        self.now += d

    def time(self) -> float:
        return self.now

    def perf_counter(self) -> float:
        return self.now

    def sleep(self, d: float) -> None:
        self.now += d
