"""Scripted environments: pure functions of (seed, history) that keep a ground-truth log.

ScriptPZ       PettingZoo ParallelEnv with scripted episode lengths / endings / leaving agents / faults / delays
ScriptVecGym   gymnasium-style vector environment for the single-agent training loops (see trainsim)
"""
from __future__ import annotations

from typing import Any, Dict, List, Optional, Tuple

import numpy as np
from gymnasium import spaces

PZ_OBS_KINDS = ["vec_f32", "vec_f64", "vec_i64", "image_u8", "discrete", "dict", "tuple"]


class IllegalAction(Exception):
    pass


class EnvFault(Exception):
    pass


FAULT_EXCEPTIONS = {
    "ValueError": ValueError,
    "RuntimeError": RuntimeError,
    "KeyError": KeyError,
    "EnvFault": EnvFault,
    "ZeroDivisionError": ZeroDivisionError,
}


def _mix(*xs: int) -> int:
    h = 1469598103934665603
    for x in xs:
        h ^= (int(x) + 0x9E3779B97F4A7C15) & 0xFFFFFFFFFFFFFFFF
        h = (h * 1099511628211) & 0xFFFFFFFFFFFFFFFF
    return h


def pz_obs_space(kind: str) -> spaces.Space:
    if kind == "vec_f32":
        return spaces.Box(-1e6, 1e6, (3,), np.float32)
    if kind == "vec_f64":
        return spaces.Box(-1e6, 1e6, (2,), np.float64)
    if kind == "vec_i64":
        return spaces.Box(-(10**6), 10**6, (2,), np.int64)
    if kind == "image_u8":
        return spaces.Box(0, 255, (2, 3, 3), np.uint8)
    if kind == "discrete":
        return spaces.Discrete(9)
    if kind == "dict":
        return spaces.Dict({"im": spaces.Box(0, 255, (1, 2, 2), np.uint8), "v": spaces.Box(-1e6, 1e6, (2,), np.float32)})
    if kind == "tuple":
        return spaces.Tuple((spaces.Box(-1e6, 1e6, (2,), np.float32), spaces.Box(0, 255, (1, 2, 2), np.uint8)))
    raise ValueError(kind)


def _obs_value(space: spaces.Space, code: int):
    """Observation whose every component encodes `code` (an integer < 2**20)."""
    if isinstance(space, spaces.Box):
        if space.dtype == np.uint8:
            return np.full(space.shape, code % 251, dtype=np.uint8)
        if np.issubdtype(space.dtype, np.integer):
            return np.full(space.shape, code, dtype=space.dtype)
        return (np.full(space.shape, float(code), dtype=space.dtype) + np.arange(int(np.prod(space.shape))).reshape(space.shape).astype(space.dtype) * 0.25)
    if isinstance(space, spaces.Discrete):
        return int(code % space.n)
    if isinstance(space, spaces.Dict):
        return {k: _obs_value(s, code) for k, s in space.spaces.items()}
    if isinstance(space, spaces.Tuple):
        return tuple(_obs_value(s, code) for s in space.spaces)
    raise ValueError(space)


class ScriptPZ:
    """Scripted PettingZoo ParallelEnv. Behaviour is a pure function of (spec, seed, episode number, step, actions)."""

    metadata = {"name": "script_pz_v0", "render_modes": []}
    render_mode = None

    def __init__(self, spec: Dict[str, Any], env_index: int = 0, world: Any = None):
        self.spec = spec
        self.env_index = env_index
        self.world = world  # None for the sequential reference; else carries the scheduler, fault plan and delays
        n = spec["n_agents"]
        self.possible_agents = [f"a_{i}" for i in range(n)]
        self.agents: List[str] = []
        self._obs_space = pz_obs_space(spec["obs_kind"])
        self._act_space = spaces.Discrete(4) if spec["act_kind"] == "discrete" else spaces.Box(-1.0, 1.0, (2,), np.float32)
        self.seed_value = 1000 + env_index
        self.episode = -1
        self.t = 0
        self.length = 1
        self.calls = {"reset": 0, "step": 0, "call": 0, "setattr": 0}
        self.closed = False
        self.log: List[Tuple] = []
        self._fragile = 0

    # ---- spaces ------------------------------------------------------------------------------
    def observation_space(self, agent: str) -> spaces.Space:
        return self._obs_space

    def action_space(self, agent: str) -> spaces.Space:
        return self._act_space

    @property
    def unwrapped(self):
        return self

    # ---- scripted behaviour ----------------------------------------------------------------
    def _code(self, agent_idx: int) -> int:
        return ((self.seed_value % 89) * 4000 + (self.episode % 40) * 100 + self.t * 4 + agent_idx) % (2**20)

    def _episode_length(self) -> int:
        return 1 + _mix(self.seed_value, self.episode, self.spec.get("len_seed", 0)) % self.spec.get("max_len", 4)

    def _leave_step(self, agent_idx: int) -> Optional[int]:
        if not self.spec.get("leave") or agent_idx == 0:
            return None
        s = self.length - agent_idx
        return s if s >= 1 else None

    def _fault(self, command: str) -> None:
        self.calls[command] += 1
        w = self.world
        if w is None:
            return
        k = (self.env_index, command, self.calls[command])
        d = w.delays.get(k)
        if d:
            w.slept(self.env_index, d)
            w.sched.sleep(d)
        f = w.faults.get(k)
        if f is None:
            return
        w.fired(k, f)
        if f["kind"] == "raise":
            raise FAULT_EXCEPTIONS[f["exc"]](f["msg"])
        if f["kind"] == "sleep":
            w.slept(self.env_index, f["d"])
            w.sched.sleep(f["d"])
        elif f["kind"] == "die":
            from sim.sched import Killed

            raise Killed()

    def reset(self, seed: Optional[int] = None, options: Optional[dict] = None):
        self._fault("reset")
        if seed is not None:
            self.seed_value = int(seed)
            self.episode = -1
        self.episode += 1
        self.t = 0
        self.length = self._episode_length()
        self.agents = list(self.possible_agents)
        obs = {a: _obs_value(self._obs_space, self._code(i)) for i, a in enumerate(self.possible_agents)}
        info = {a: {"t": 0, "ep": self.episode} for a in self.possible_agents}
        self.log.append(("reset", self.seed_value, self.episode))
        return obs, info

    def step(self, actions: Dict[str, Any]):
        self._fault("step")
        self.t += 1
        obs, rew, term, trunc, info = {}, {}, {}, {}, {}
        end = self.t >= self.length
        present = list(self.agents)
        for a in present:
            i = self.possible_agents.index(a)
            act = actions.get(a)
            if act is None:
                raise IllegalAction(f"no action for live agent {a}")
            arr = np.asarray(act)
            if not self._act_space.contains(arr.astype(self._act_space.dtype) if isinstance(self._act_space, spaces.Box) else int(arr)):
                raise IllegalAction(f"action {act!r} of {a} not in {self._act_space}")
            echo = float(arr.reshape(-1)[0])
            obs[a] = _obs_value(self._obs_space, self._code(i))
            rew[a] = float(self.t + 0.25 * i + 0.01 * echo)
            leave = self._leave_step(i)
            leaving = leave is not None and self.t == leave and not end
            kind = self.spec["ending"]
            term[a] = bool((end and (kind == "term" or (kind == "mixed" and i == 0))) or leaving)
            trunc[a] = bool(end and (kind == "trunc" or (kind == "mixed" and i != 0)))
            info[a] = {"t": self.t, "ep": self.episode}
        self.agents = [a for a in present if not (term[a] or trunc[a])]
        self.log.append(("step", self.episode, self.t, {a: np.asarray(actions[a]).tolist() for a in present}))
        return obs, rew, term, trunc, info

    def close(self) -> None:
        self.closed = True

    # ---- remote-call surface -----------------------------------------------------------
    def probe_call(self, x: int = 0) -> int:
        self._fault("call")
        return 100 * self.env_index + x

    @property
    def fragile(self) -> int:
        return self._fragile

    @fragile.setter
    def fragile(self, v: int) -> None:
        self._fault("setattr")
        self._fragile = v
