"""Property id -> engine module, claimed level, tier sizes (runs are fixed counts, wall is a safety cap)."""
import importlib

REGISTRY = {
    "C07": {"engine": "sim.world", "level": "fault_enumeration",
            "tiers": {"quick": {"runs": 240, "wall": 300}, "thorough": {"runs": 3000, "wall": 3000}}},
    "C08": {"engine": "sim.world", "level": "exploration",
            "tiers": {"quick": {"runs": 320, "wall": 300}, "thorough": {"runs": 8000, "wall": 3000}}},
    "C02": {"engine": "sim.world", "level": "exploration",
            "tiers": {"quick": {"runs": 400, "wall": 300}, "thorough": {"runs": 10000, "wall": 3000}}},
    "C05": {"engine": "sim.world", "level": "exploration",
            "tiers": {"quick": {"runs": 320, "wall": 300}, "thorough": {"runs": 8000, "wall": 3000}}},
    "C06": {"engine": "sim.world", "level": "exploration",
            "tiers": {"quick": {"runs": 480, "wall": 300}, "thorough": {"runs": 12000, "wall": 3000}}},
    "C01": {"engine": "sim.world", "level": "exploration",
            "tiers": {"quick": {"runs": 480, "wall": 300}, "thorough": {"runs": 12000, "wall": 3000}}},
    "C09": {"engine": "sim.bufsim", "level": "exploration",
            "tiers": {"quick": {"runs": 1600, "wall": 240}, "thorough": {"runs": 60000, "wall": 2400}}},
    "C10": {"engine": "sim.bufsim", "level": "exploration",
            "tiers": {"quick": {"runs": 1600, "wall": 240}, "thorough": {"runs": 60000, "wall": 2400}}},
    "C11": {"engine": "sim.bufsim", "level": "exploration",
            "tiers": {"quick": {"runs": 1600, "wall": 240}, "thorough": {"runs": 60000, "wall": 2400}}},
}

_T = "deterministic simulation: seeded search over operation / fault histories executed against the real code, "
META = {
    "C01": {"technique": _T + "population-world simulator with value/storage fingerprints of every party after every event (non-interference) and clone-faithfulness model",
            "design_ref": "DESIGN.md 4 (C01)", "level_text": "seeded exploration of clone/learn/mutate/select/discard/restore histories over all 11 algorithms and 5 observation families; every event is followed by a bystander check over all live agents and ghosts; evidence, not proof",
            "level_note": "CPU only; tiny networks; batches are synthetic (drawn from the spaces) but shaped by the real Transition/ReplayBuffer; bit-equality relies on one torch thread"},
    "C09": {"technique": _T + "buffer op-history simulator with a Python-list reference model and id-carrying transitions",
            "design_ref": "DESIGN.md 4 (C09)", "level_text": "seeded exploration of add/sample/clear histories with widths biased to the wrap-around edge, for the single- and multi-agent buffer and 5 observation kinds; reference model checked after every op",
            "level_note": "content is read back through the public sample() API; float32 ids are exact below 2**22"},
    "C10": {"technique": _T + "scripted vector transition stream fed through the real n-step and 1-step buffers, window-scan reference model",
            "design_ref": "DESIGN.md 4 (C10)", "level_text": "seeded exploration of (n, gamma, envs, capacity) x terminal-placement patterns incl. first/middle/last slot, consecutive and staggered ends, wrap-around",
            "level_note": "the 'window may be cut when another environment ends' allowance of the statement is encoded in the oracle"},
    "C11": {"technique": _T + "prioritised-buffer op-history simulator with injected stratum-edge variates (buggify) and a linear prefix-scan reference",
            "design_ref": "DESIGN.md 4 (C11)", "level_text": "seeded exploration of add/update/sample interleavings with tiny/huge/repeated priorities and uniform variates forced to 0, 1-2**-24 and prefix-sum boundaries",
            "level_note": "variates are injected through a proxy for the name torch in agilerl.components.replay_buffer; only values a real float32 torch.rand can return"},
}

_cache = {}


def load_engine(prop):
    name = REGISTRY[prop]["engine"]
    if name not in _cache:
        _cache[name] = importlib.import_module(name)
    return _cache[name]
