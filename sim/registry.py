"""Property id -> engine module, claimed level, tier sizes (runs are fixed counts, wall is a safety cap)."""
import importlib

REGISTRY = {
    "C09": {"engine": "sim.bufsim", "level": "exploration",
            "tiers": {"quick": {"runs": 1600, "wall": 240}, "thorough": {"runs": 60000, "wall": 2400}}},
    "C10": {"engine": "sim.bufsim", "level": "exploration",
            "tiers": {"quick": {"runs": 1600, "wall": 240}, "thorough": {"runs": 60000, "wall": 2400}}},
    "C11": {"engine": "sim.bufsim", "level": "exploration",
            "tiers": {"quick": {"runs": 1600, "wall": 240}, "thorough": {"runs": 60000, "wall": 2400}}},
}

_cache = {}


def load_engine(prop):
    name = REGISTRY[prop]["engine"]
    if name not in _cache:
        _cache[name] = importlib.import_module(name)
    return _cache[name]
