"""Property id -> engine module, claimed level, tier sizes (runs are fixed counts, wall is a safety cap).

Thorough counts are sized to about ten minutes on 16 idle cores each, so that every registered thorough command could be re-run to completion on
the final tree (a thorough check that was never seen to finish cleanly would be an unknown, not a deeper check)."""
import importlib

REGISTRY = {
    "C20": {"engine": "sim.trainsim", "level": "exploration",
            "tiers": {"quick": {"runs": 480, "wall": 420}, "thorough": {"runs": 6000, "wall": 1800}}},
    "C17": {"engine": "sim.rollsim", "level": "exploration",
            "tiers": {"quick": {"runs": 2400, "wall": 300}, "thorough": {"runs": 24000, "wall": 1800}}},
    "C12": {"engine": "sim.vecsim", "level": "exploration",
            "tiers": {"quick": {"runs": 16000, "wall": 300}, "thorough": {"runs": 200000, "wall": 1800}}},
    "C13": {"engine": "sim.vecsim", "level": "fault_enumeration",
            "tiers": {"quick": {"runs": 9000, "wall": 300}, "thorough": {"runs": 4000, "wall": 1800}}},
    "C03": {"engine": "sim.modsim", "level": "exploration",
            "tiers": {"quick": {"runs": 2000, "wall": 300}, "thorough": {"runs": 24000, "wall": 1800}}},
    "C04": {"engine": "sim.modsim", "level": "exploration",
            "tiers": {"quick": {"runs": 2000, "wall": 300}, "thorough": {"runs": 24000, "wall": 1800}}},
    "C19": {"engine": "sim.world", "level": "exploration",
            "tiers": {"quick": {"runs": 1500, "wall": 300}, "thorough": {"runs": 20000, "wall": 1800}}},
    "C07": {"engine": "sim.world", "level": "fault_enumeration",
            "tiers": {"quick": {"runs": 240, "wall": 300}, "thorough": {"runs": 1600, "wall": 1800}}},
    "C08": {"engine": "sim.world", "level": "exploration",
            "tiers": {"quick": {"runs": 320, "wall": 300}, "thorough": {"runs": 1500, "wall": 1800}}},
    "C02": {"engine": "sim.world", "level": "exploration",
            "tiers": {"quick": {"runs": 400, "wall": 300}, "thorough": {"runs": 4000, "wall": 1800}}},
    "C05": {"engine": "sim.world", "level": "exploration",
            "tiers": {"quick": {"runs": 320, "wall": 300}, "thorough": {"runs": 2000, "wall": 1800}}},
    "C06": {"engine": "sim.world", "level": "exploration",
            "tiers": {"quick": {"runs": 480, "wall": 300}, "thorough": {"runs": 3000, "wall": 1800}}},
    "C01": {"engine": "sim.world", "level": "exploration",
            "tiers": {"quick": {"runs": 480, "wall": 300}, "thorough": {"runs": 2400, "wall": 1800}}},
    "C09": {"engine": "sim.bufsim", "level": "exploration",
            "tiers": {"quick": {"runs": 6000, "wall": 240}, "thorough": {"runs": 150000, "wall": 1800}}},
    "C10": {"engine": "sim.bufsim", "level": "exploration",
            "tiers": {"quick": {"runs": 1600, "wall": 240}, "thorough": {"runs": 16000, "wall": 1800}}},
    "C11": {"engine": "sim.bufsim", "level": "exploration",
            "tiers": {"quick": {"runs": 6000, "wall": 240}, "thorough": {"runs": 150000, "wall": 1800}}},
}

_T = "deterministic simulation: seeded search over operation / fault histories executed against the real code, "
META = {
    "C01": {"technique": _T + "population-world simulator with value/storage fingerprints of every party after every event (non-interference) and clone-faithfulness model",
            "design_ref": "DESIGN.md 4 (C01)", "level_text": "seeded exploration of clone/learn/mutate/select/discard/restore histories over all 11 algorithms and 5 observation families; every event is followed by a bystander check over all live agents and ghosts; evidence, not proof",
            "level_note": "CPU only; tiny networks; batches are synthetic (drawn from the spaces) but shaped by the real Transition/ReplayBuffer; bit-equality relies on one torch thread"},
    "C02": {"technique": _T + "population-world simulator: generations of select/mutate/learn with SimRng-driven Mutations, coherence invariants after every mutation round",
            "design_ref": "DESIGN.md 4 (C02)", "level_text": "seeded exploration of mutation probability vectors (incl. single-kind and degenerate), pre-/in-training mutation, mutate_elite on/off over all algorithms; after each round: optimizer parameter identity and lr, target architecture and weights, critics following the policy's architecture delta, truthful mut label, act + learn liveness",
            "level_note": "accelerator / torch.compile branches of Mutations are outside; 'same architecture change' is compared on init_dict deltas with a bound-blocked allowance"},
    "C03": {"technique": _T + "module-chain simulator: clone-and-mutate walks over every building block and network, restart-from-constructor-description fault, bound / rebuild / effect oracles",
            "design_ref": "DESIGN.md 4 (C03)", "level_text": "seeded walks (not enumeration) over MLP, CNN 2d/3d, LSTM, SimBa, ResNet, multi-input and the six network classes over vector/image/dict/tuple/discrete/sequence spaces, tight bounds (limits and fall-backs reached within a dozen steps) and default bounds; companion network follows the mutation dict like a critic",
            "level_note": "the 'exhaustive for small bounds' half of the quantifier is model-checking territory and is not attempted; 'stopped by a bound' is decided conservatively with the largest step a method can draw"},
    "C04": {"technique": _T + "module-chain simulator: same chains with perturbed weights, per-parameter common-slice comparison, no-op and clone output equality",
            "design_ref": "DESIGN.md 4 (C04)", "level_text": "every parameter present before and after a mutation is compared on the common index range; unchanged architectures and clones are compared by bit-equal outputs in eval mode",
            "level_note": "buffers (BatchNorm running statistics) are not 'weights'; noisy layers are compared in eval mode"},
    "C05": {"technique": _T + "population-world simulator with a recording seam on the tournament's np.random draws and a reference tournament over scheduler-assigned fitness histories",
            "design_ref": "DESIGN.md 4 (C05)", "level_text": "seeded exploration of population sizes 1-6, tournament sizes up to pop+2, evaluation windows, elitism, ties / negative / unequal-length fitness histories, configured size != len(population), repeated generations",
            "level_note": "parent identification uses faithful-copy comparison (C01 oracle); ties accept any tied agent"},
    "C06": {"technique": _T + "population-world simulator: RL-hyperparameter mutation rounds on populations built from one shared or private HyperparameterConfig, RLParameter.mutate definition as reference model",
            "design_ref": "DESIGN.md 4 (C06)", "level_text": "seeded exploration of float/int parameters with default, wide, sticking-integer and at-bound ranges, distinct or equal start values, interleaved clone / select / learn; every optimizer group's lr and parameter identity checked after each mutation",
            "level_note": "current values are generated inside the configured range, as the quantifier says"},
    "C07": {"technique": _T + "crash-point sweep: history replayed twice (original + never-crashed twin), checkpoint written to a simulated file with write faults, restored through both load paths, same suffix on both",
            "design_ref": "DESIGN.md 4 (C07)", "level_text": "histories are sampled, crash points within a history are enumerated in the thorough tier (2-3 sampled in quick); fault kinds torn tail, lost tail block, EIO at k-th write, ENOSPC after b bytes with the narrow oracle 'may fail, never wrong data'",
            "level_note": "one file, no directory-level crash consistency; AgentWrapper path not driven yet"},
    "C08": {"technique": _T + "executable reference model of every target network (shadow module updated by the tau rule, compared behaviourally), recomputed loss, done-masking twin run",
            "design_ref": "DESIGN.md 4 (C08)", "level_text": "seeded exploration of learn streaks directly after construction, clone, each mutation kind and both load paths, tau in {1, .5, .1, .01}, policy delay 1-3, done patterns all-0/all-1/mixed, for DQN/double DQN, CQN, Rainbow (1-step, n-step, PER), DDPG, TD3, MADDPG, MATD3",
            "level_note": "share_encoders=False and no BatchNorm encoders in this check (tied encoders are not soft-updated by design); loss value recomputed for DQN, DDPG, TD3 only"},
    "C12": {"technique": _T + "real AsyncPettingZooVecEnv + _async_worker on a fake multiprocessing context under a baton-passing scheduler with virtual clock; sequential reference of N scripted environments",
            "design_ref": "DESIGN.md 4 (C12), appendix A", "level_text": "seeded exploration of worker interleavings (every pipe send/recv/poll, queue op, process start/join and shared-memory copy is a scheduling point), per-call virtual delays, 1-5 sub-environments, 1-3 agents, 7 observation kinds, term/trunc/mixed endings, leaving agents, copy and no-copy mode, start method fork / spawn; plus the single-environment auto-reset wrapper",
            "level_note": "pre-emption only at synchronisation points; pipe/process semantics are validated against real multiprocessing by selftest/conformance.py; placeholder values for agents that left are not part of the statement and not compared"},
    "C13": {"technique": _T + "same simulator with a fault plan (sub-environment raises / stalls past the timeout / dies at (worker, command, call number)), misuse call sequences, start method fork (workers inherit every descriptor open in the parent) or spawn per case, deadlock detection = hang",
            "design_ref": "DESIGN.md 4 (C13), appendix A", "level_text": "call sequences are sampled; for a sampled sequence the single-fault space (worker x command x call number x {raise, stall, die}) is enumerated completely in the thorough tier (a slice in 10% of quick cases), double faults are sampled; a hang is a Deadlock raised by the scheduler, promptness is measured on the virtual clock",
            "level_note": "not demanded: usability after a timeout / dead worker, a particular exception for a dead worker; the documented misuse errors and exception-type propagation are"},
    "C17": {"technique": _T + "scripted on-policy rollouts with id-carrying observations, recorder at the get_experiences_samples seam, per-(agent, env) reference GAE; PPO also through the real train_on_policy on a scripted vector environment",
            "design_ref": "DESIGN.md 4 (C17)", "level_text": "seeded exploration of rollout length 1-12, 1-4 environments, 1-3 agents of which 1-3 share a policy, gamma/lambda in [0,1] incl. 0 and 1, episode ends at the first / last step / final next_done / everywhere; every flattened training row is attributed through its observation and compared with the reference estimate, old value, old log-prob and action of that (agent, env, step)",
            "level_note": "no repository hook was needed (existing module-level seam); image-free observation kinds so that the bootstrap value does not depend on batching; IPPO at the learn() level, the multi-agent loop is exercised under C20"},
    "C20": {"technique": _T + "the real train_* functions run to completion on strict scripted environments with a ground-truth log tagged by acting agent and phase, virtual clock, SimRng-driven evolution, real temp-dir checkpoints; lineage-based step accounting oracle",
            "design_ref": "DESIGN.md 4 (C20)", "level_text": "seeded exploration over the six training functions x every algorithm they dispatch on x observation families x sub-environments vs learn_step x uniform / n-step / prioritised memories x tournament+mutation on/off x checkpoints x budgets crossing 1-3 generations; population size and indices, per-lineage step counters against the environment log, budget met now and not one generation earlier, one fitness entry per generation, elite untouched with mutate_elite=False, checkpoint files load",
            "level_note": "CPU, no accelerate / wandb / torch.compile branches; class-level wrappers (outside /repo) only tag who acts; single non-vectorised environments are a known finding"},
    "C19": {"technique": _T + "bandit world: decisions interleaved with learn / mutation / clone / checkpoint round trips, independent autograd features and a float64 Gram accumulator as reference",
            "design_ref": "DESIGN.md 4 (C19)", "level_text": "seeded exploration for NeuralUCB and NeuralTS, lambda in {0.5, 1, 2}, masks, vector and image contexts; after every decision sigma_inv @ (lambda I + sum g g^T) = I within 5e-3, symmetric, positive definite, right size, exp_layer identity",
            "level_note": "tolerance 5e-3 absolute on float32 sigma_inv; the model restarts whenever the library re-initialises the matrix"},
    "C09": {"technique": _T + "buffer op-history simulator with a Python-list reference model and id-carrying transitions",
            "design_ref": "DESIGN.md 4 (C09)", "level_text": "seeded exploration of add/sample/clear histories with widths biased to the wrap-around edge, for the single- and multi-agent buffer and 5 observation kinds; reference model checked after every op",
            "level_note": "content is read back through the public sample() API; float32 ids are exact below 2**22"},
    "C10": {"technique": _T + "scripted vector transition stream fed through the real n-step and 1-step buffers, window-scan reference model",
            "design_ref": "DESIGN.md 4 (C10)", "level_text": "seeded exploration of (n, gamma, envs, capacity) x terminal-placement patterns incl. first/middle/last slot, consecutive and staggered ends, wrap-around",
            "level_note": "the 'window may be cut when another environment ends' allowance of the statement is encoded in the oracle"},
    "C11": {"technique": _T + "prioritised-buffer op-history simulator with injected stratum-edge variates (buggify) and a linear prefix-scan reference",
            "design_ref": "DESIGN.md 4 (C11)", "level_text": "seeded exploration of add/update/sample interleavings with tiny/huge/repeated priorities and uniform variates forced to 0, 1-2**-24 and prefix-sum boundaries",
            "level_note": "variates are injected through a proxy for the name torch in agilerl.components.replay_buffer; only values a real float32 torch.rand can return"},
}

_cache = {}


def load_engine(prop):
    name = REGISTRY[prop]["engine"]
    if name not in _cache:
        _cache[name] = importlib.import_module(name)
    return _cache[name]
