"""Agent factory for the population-world simulator: builds tiny real AgileRL agents of every algorithm named by
the properties, generates learn() batches the way the training loops and buffers produce them, and evaluates
behaviour probes (outputs of every eval / target network on fixed observations)."""
from __future__ import annotations

import copy
import random
from typing import Any, Dict, List, Optional, Tuple

import numpy as np
import torch
from gymnasium import spaces

from sim.rng import seed_all

SINGLE = ["DQN", "RainbowDQN", "CQN", "DDPG", "TD3", "PPO", "NeuralUCB", "NeuralTS"]
MULTI = ["MADDPG", "MATD3", "IPPO"]
ALGOS = SINGLE + MULTI
OBS_KINDS = ["vector", "image", "dict", "tuple", "discrete"]
VALUE_BASED = ["DQN", "RainbowDQN", "CQN", "DDPG", "TD3", "MADDPG", "MATD3"]


def algo_cls(name: str):
    import agilerl.algorithms as A

    return getattr(A, name)


# ------------------------------------------------------------------------------------------------
# spaces
# ------------------------------------------------------------------------------------------------
def obs_space(kind: str) -> spaces.Space:
    if kind == "vector":
        return spaces.Box(-1.0, 1.0, (4,), np.float32)
    if kind == "image":
        return spaces.Box(0.0, 1.0, (3, 8, 8), np.float32)
    if kind == "dict":
        return spaces.Dict({"a": spaces.Box(-1.0, 1.0, (3,), np.float32), "b": spaces.Box(0.0, 1.0, (3, 8, 8), np.float32)})
    if kind == "tuple":
        return spaces.Tuple((spaces.Box(-1.0, 1.0, (3,), np.float32), spaces.Box(-1.0, 1.0, (5,), np.float32)))
    if kind == "discrete":
        return spaces.Discrete(5)
    raise ValueError(kind)


def act_space(kind: str) -> spaces.Space:
    if kind == "discrete":
        return spaces.Discrete(3)
    if kind == "box":
        return spaces.Box(-1.0, 1.0, (2,), np.float32)
    if kind == "box_asym":
        return spaces.Box(np.array([-2.0, 0.0], np.float32), np.array([1.0, 3.0], np.float32))
    if kind == "box_tight":
        # narrower than the target-policy smoothing noise (std 0.2, clip 0.5): the clamp of noisy target actions to the action range is active all the time
        return spaces.Box(np.array([-0.05, -0.3], np.float32), np.array([0.05, 0.1], np.float32))
    raise ValueError(kind)


def sample_obs(space: spaces.Space, r: np.random.RandomState, n: int):
    """n observations stacked along a leading batch axis (what a vector env returns)."""
    if isinstance(space, spaces.Box):
        lo = np.where(np.isfinite(space.low), space.low, -1.0)
        hi = np.where(np.isfinite(space.high), space.high, 1.0)
        return (lo + (hi - lo) * r.random_sample((n,) + space.shape)).astype(space.dtype)
    if isinstance(space, spaces.Discrete):
        return r.randint(0, space.n, size=(n,)).astype(np.int64)
    if isinstance(space, spaces.Dict):
        return {k: sample_obs(s, r, n) for k, s in space.spaces.items()}
    if isinstance(space, spaces.Tuple):
        return tuple(sample_obs(s, r, n) for s in space.spaces)
    raise ValueError(space)


def sample_act(space: spaces.Space, r: np.random.RandomState, n: int):
    if isinstance(space, spaces.Discrete):
        return r.randint(0, space.n, size=(n,)).astype(np.int64)
    return (space.low + (space.high - space.low) * r.random_sample((n,) + space.shape)).astype(np.float32)


# ------------------------------------------------------------------------------------------------
# configuration
# ------------------------------------------------------------------------------------------------
def gen_agent_cfg(rng: random.Random, algo: Optional[str] = None, algos: Optional[List[str]] = None) -> Dict[str, Any]:
    algo = algo or rng.choice(algos or ALGOS)
    cfg: Dict[str, Any] = {"algo": algo}
    if algo in ("NeuralUCB", "NeuralTS"):
        cfg["obs"] = rng.choice(["vector", "vector", "image"])
        cfg["act"] = "discrete"
        cfg["lamb"] = rng.choice([1.0, 1.0, 0.5, 2.0])
        cfg["gamma"] = rng.choice([1.0, 0.5, 2.0])
    elif algo in MULTI:
        cfg["obs"] = rng.choice(["vector", "vector", "image", "dict", "discrete"])
        cfg["n_agents"] = rng.choice([2, 2, 3])
        cfg["homogeneous"] = rng.random() < 0.6
        cfg["act"] = rng.choice(["discrete", "box"])
    else:
        cfg["obs"] = rng.choice(OBS_KINDS)
        if algo in ("DQN", "RainbowDQN", "CQN"):
            cfg["act"] = "discrete"
        elif algo in ("DDPG", "TD3"):
            cfg["act"] = rng.choice(["box", "box_asym", "box_tight"])
        else:
            cfg["act"] = rng.choice(["discrete", "box"])
    if algo in ("DDPG", "TD3", "PPO"):
        cfg["share_encoders"] = rng.random() < 0.5
    if algo in ("DQN", "CQN"):
        cfg["double"] = rng.random() < 0.5
    if algo in VALUE_BASED:
        cfg["tau"] = rng.choice([1.0, 0.5, 0.1, 0.01])
        cfg["gamma"] = rng.choice([0.99, 0.9, 0.5])
    if algo in ("DDPG", "TD3", "MATD3"):
        cfg["policy_freq"] = rng.choice([1, 2, 3])
    if algo == "RainbowDQN":
        cfg["n_step"] = rng.choice([1, 3])
        cfg["per"] = rng.random() < 0.5
        cfg["use_n_step"] = rng.random() < 0.5
        cfg["combined_reward"] = rng.random() < 0.3
    cfg["tight"] = rng.random() < 0.6
    cfg["batch_size"] = rng.choice([2, 4, 5, 8])
    cfg["hp"] = rng.choice(["shared", "shared", "private", "none"])
    cfg["lr"] = rng.choice([1e-3, 5e-3, 1e-2])
    return cfg


def net_config(cfg: Dict[str, Any]) -> Optional[Dict[str, Any]]:
    """Tight bounds so that limits and fall-backs are hit within a dozen mutation steps."""
    if cfg.get("head_out_act"):
        # a head with an output activation (legal for every network; for the bandits it puts an activation derivative into the gradient features)
        nc = net_config({k: v for k, v in cfg.items() if k != "head_out_act"}) or {"latent_dim": 16, "head_config": {"hidden_size": [16]}}
        nc["head_config"] = dict(nc["head_config"], output_activation=cfg["head_out_act"])
        return nc
    if not cfg.get("tight"):
        return None
    kind = cfg["obs"]
    head = {"hidden_size": [16], "min_hidden_layers": 1, "max_hidden_layers": 2, "min_mlp_nodes": 8, "max_mlp_nodes": 48}
    if kind in ("vector", "discrete", "tuple"):
        if kind == "tuple":
            return {"latent_dim": 16, "head_config": head}
        enc = {"hidden_size": [16], "min_hidden_layers": 1, "max_hidden_layers": 2, "min_mlp_nodes": 8, "max_mlp_nodes": 48,
               "activation": "ReLU"}
        return {"latent_dim": 16, "min_latent_dim": 8, "max_latent_dim": 32, "encoder_config": enc, "head_config": head}
    if kind == "image":
        enc = {"channel_size": [8], "kernel_size": [3], "stride_size": [1], "min_hidden_layers": 1, "max_hidden_layers": 2,
               "min_channel_size": 4, "max_channel_size": 24, "activation": "ReLU"}
        if cfg.get("no_bn"):
            enc["layer_norm"] = False
        return {"latent_dim": 16, "min_latent_dim": 8, "max_latent_dim": 32, "encoder_config": enc, "head_config": head}
    return {"latent_dim": 16, "head_config": head}


def hp_config(cfg: Dict[str, Any]):
    from agilerl.algorithms.core.registry import HyperparameterConfig, RLParameter

    algo = cfg["algo"]
    if algo in ("DDPG", "TD3", "MADDPG", "MATD3"):
        return HyperparameterConfig(
            lr_actor=RLParameter(min=1e-4, max=1e-2), lr_critic=RLParameter(min=1e-4, max=1e-2),
            batch_size=RLParameter(min=2, max=16, dtype=int), learn_step=RLParameter(min=1, max=8, dtype=int, grow_factor=1.5, shrink_factor=0.75))
    return HyperparameterConfig(
        lr=RLParameter(min=1e-4, max=1e-2), batch_size=RLParameter(min=2, max=16, dtype=int),
        learn_step=RLParameter(min=1, max=8, dtype=int, grow_factor=1.5, shrink_factor=0.75))


def ma_ids(cfg) -> List[str]:
    n = cfg["n_agents"]
    if cfg.get("homogeneous"):
        return [f"ag_{i}" for i in range(n)]
    return ["alpha_0", "beta_0", "gamma_0"][:n]


def spaces_of(cfg) -> Tuple[Any, Any]:
    if cfg["algo"] in MULTI:
        ids = ma_ids(cfg)
        return [obs_space(cfg["obs"]) for _ in ids], [act_space(cfg["act"]) for _ in ids]
    return obs_space(cfg["obs"]), act_space(cfg["act"])


def make_agent(cfg: Dict[str, Any], index: int = 0, hp=None, seed: int = 0):
    """Construct the real agent. `hp` is a HyperparameterConfig (possibly shared by the whole population)."""
    seed_all(seed)
    algo = cfg["algo"]
    cls = algo_cls(algo)
    o, a = spaces_of(cfg)
    nc = net_config(cfg)
    kw: Dict[str, Any] = {"index": index, "hp_config": hp, "net_config": copy.deepcopy(nc), "batch_size": cfg["batch_size"]}
    if algo in ("DDPG", "TD3", "MADDPG", "MATD3"):
        kw["lr_actor"] = cfg["lr"]
        # "same_lr": both learning rates are the very same float object, as in Algo(lr_actor=x, lr_critic=x)
        kw["lr_critic"] = kw["lr_actor"] if cfg.get("same_lr") else cfg["lr"] * 2
    else:
        kw["lr"] = cfg["lr"]
    for k in ("tau", "gamma", "policy_freq", "double", "share_encoders", "lamb", "n_step", "combined_reward"):
        if k in cfg:
            kw[k] = cfg[k]
    if algo in ("DDPG", "TD3", "MADDPG", "MATD3"):
        kw["O_U_noise"] = False
    if algo == "RainbowDQN":
        kw.update(num_atoms=11, v_min=-5.0, v_max=5.0)
    if algo in ("PPO", "IPPO"):
        kw.update(update_epochs=2, learn_step=8)
    if "learn_step" in cfg:
        kw["learn_step"] = cfg["learn_step"]
    if algo in MULTI:
        return cls(o, a, agent_ids=ma_ids(cfg), **kw)
    return cls(o, a, **kw)


# ------------------------------------------------------------------------------------------------
# batches
# ------------------------------------------------------------------------------------------------
def _done_vec(r: np.random.RandomState, n: int, mode: str) -> np.ndarray:
    if mode == "zeros":
        return np.zeros(n, np.float32)
    if mode == "ones":
        return np.ones(n, np.float32)
    d = (r.random_sample(n) < 0.5).astype(np.float32)
    if n >= 2:
        d[0], d[1] = 1.0, 0.0
    return d


def make_batch(agent, cfg: Dict[str, Any], seed: int, done_mode: str = "mixed", batch_size: Optional[int] = None,
               noise_next_where_done: bool = False):
    """A batch in exactly the format the matching training loop hands to learn(), built through the real
    Transition / ReplayBuffer / MultiAgentReplayBuffer so shapes and dtypes are the library's own."""
    from agilerl.components.data import Transition
    from agilerl.components.multi_agent_replay_buffer import MultiAgentReplayBuffer
    from agilerl.components.replay_buffer import ReplayBuffer

    algo = cfg["algo"]
    B = int(batch_size or getattr(agent, "batch_size", cfg["batch_size"]))
    r = np.random.RandomState(seed % (2**32 - 1))
    r_noise = np.random.RandomState((seed * 31 + 7) % (2**32 - 1))  # separate stream: the base batch must not shift
    o_sp, a_sp = spaces_of(cfg)
    if algo in ("PPO", "IPPO"):
        return make_rollout(agent, cfg, seed, done_mode)
    if algo in ("NeuralUCB", "NeuralTS"):
        from tensordict import TensorDict

        obs = torch.as_tensor(sample_obs(o_sp, r, B)).float()
        rew = torch.as_tensor(r.uniform(-1, 1, size=(B, 1)).astype(np.float32))
        return TensorDict({"obs": obs, "reward": rew}, batch_size=[B])
    if algo in ("MADDPG", "MATD3"):
        ids = ma_ids(cfg)
        buf = MultiAgentReplayBuffer(B, ["state", "action", "reward", "next_state", "done"], ids)
        done = _done_vec(r, B, done_mode)
        st, ac, rw, ns, dn = {}, {}, {}, {}, {}
        for i, ag in enumerate(ids):
            st[ag] = sample_obs(o_sp[i], r, B)
            ns[ag] = sample_obs(o_sp[i], r, B)
            if isinstance(a_sp[i], spaces.Discrete):
                ac[ag] = r.random_sample((B, a_sp[i].n)).astype(np.float32)  # MADDPG stores the continuous (softmax) actions
            else:
                ac[ag] = sample_act(a_sp[i], r, B)
            rw[ag] = r.uniform(-1, 1, size=B).astype(np.float32)
            dn[ag] = done.copy()
            if noise_next_where_done:
                ns[ag] = _noise_where(ns[ag], done, o_sp[i], r_noise)
        buf.save_to_memory(st, ac, rw, ns, dn, is_vectorised=True)
        seed_all(seed)
        exp = buf._process_transition(list(buf.memory))
        return tuple(exp.values())
    # single-agent TensorDict batches
    done = _done_vec(r, B, done_mode)
    obs = sample_obs(o_sp, r, B)
    nobs = sample_obs(o_sp, r, B)
    if noise_next_where_done:
        nobs = _noise_where(nobs, done, o_sp, r_noise)
    act = sample_act(a_sp, r, B)
    rew = r.uniform(-1, 1, size=B).astype(np.float32)
    if cfg.get("reward_mode") == "large":
        rew = (rew * 8).astype(np.float32)  # beyond Rainbow's support range [-5, 5]: clamped target atoms
    elif cfg.get("reward_mode") == "integer":
        rew = np.round(rew * 6).astype(np.float32)  # exactly on atoms of the support (and on / beyond its ends)
    td = Transition(obs=obs, action=act, reward=rew, next_obs=nobs, done=done).to_tensordict()
    td.batch_size = [B]
    buf = ReplayBuffer(B)
    buf.add(td)
    batch = buf.storage[:B].clone()
    if algo == "RainbowDQN" and cfg.get("per"):
        batch["weights"] = torch.as_tensor(r.uniform(0.2, 1.0, size=(B, 1)).astype(np.float32))
        batch["idxs"] = torch.arange(B).unsqueeze(1)
    elif algo == "RainbowDQN" and cfg.get("use_n_step"):
        batch["idxs"] = torch.arange(B)  # ReplayBuffer.sample(return_idx=True)
    return batch


def _noise_where(nobs, done, space, r):
    """Replace the next observation of every done row by (valid, but different) noise."""
    fresh = sample_obs(space, r, len(done))
    m = done.astype(bool)

    def mix(a, b):
        a = a.copy()
        a[m] = b[m]
        return a

    if isinstance(nobs, dict):
        return {k: mix(nobs[k], fresh[k]) for k in nobs}
    if isinstance(nobs, tuple):
        return tuple(mix(x, y) for x, y in zip(nobs, fresh))
    return mix(nobs, fresh)


def make_rollout(agent, cfg: Dict[str, Any], seed: int, done_mode: str = "mixed", T: int = 4, E: int = 2):
    """PPO / IPPO experiences in the list-of-steps layout the on-policy loops build."""
    r = np.random.RandomState(seed % (2**32 - 1))
    o_sp, a_sp = spaces_of(cfg)
    # actions / log-probs / values come from the agent's own get_action, as in the on-policy loops (with arbitrary
    # 'old values' PPO's clipped value loss can legitimately have a zero gradient)
    seed_all(seed)
    if cfg["algo"] == "PPO":
        states, actions, log_probs, rewards, dones, values = [], [], [], [], [], []
        for t in range(T):
            states.append(sample_obs(o_sp, r, E))
            a_, lp_, _, v_ = agent.get_action(states[-1])
            actions.append(np.asarray(a_))
            log_probs.append(np.asarray(lp_, dtype=np.float32))
            rewards.append(r.uniform(-1, 1, size=E).astype(np.float32))
            dones.append(_done_vec(r, E, done_mode))
            values.append(np.asarray(v_, dtype=np.float32))
        next_state = sample_obs(o_sp, r, E)
        next_done = _done_vec(r, E, done_mode)
        return (states, actions, log_probs, rewards, dones, values, next_state, next_done)
    ids = ma_ids(cfg)
    st = {a: [] for a in ids}
    ac = {a: [] for a in ids}
    lp = {a: [] for a in ids}
    rw = {a: [] for a in ids}
    dn = {a: [] for a in ids}
    vl = {a: [] for a in ids}
    for t in range(T):
        obs_t = {a: sample_obs(o_sp[i], r, E) for i, a in enumerate(ids)}
        a_, lp_, _, v_ = agent.get_action(obs=obs_t)
        for i, a in enumerate(ids):
            st[a].append(obs_t[a])
            ac[a].append(np.asarray(a_[a]))
            lp[a].append(np.asarray(lp_[a], dtype=np.float32))
            rw[a].append(r.uniform(-1, 1, size=E).astype(np.float32))
            dn[a].append(_done_vec(r, E, done_mode))
            vl[a].append(np.asarray(v_[a], dtype=np.float32))
    nst = {a: sample_obs(o_sp[i], r, E) for i, a in enumerate(ids)}
    ndn = {a: _done_vec(r, E, done_mode) for a in ids}
    return (st, ac, lp, rw, dn, vl, nst, ndn)


def do_learn(agent, cfg: Dict[str, Any], batch, n_batch=None):
    """Call learn() the way the matching training loop does."""
    algo = cfg["algo"]
    if algo == "RainbowDQN":
        return agent.learn(batch, n_experiences=n_batch, per=bool(cfg.get("per")))
    return agent.learn(batch)


# ------------------------------------------------------------------------------------------------
# networks, probes, fingerprints
# ------------------------------------------------------------------------------------------------
def network_attrs(agent) -> Dict[str, Any]:
    return dict(agent.evolvable_attributes(networks_only=True))


def flat_nets(agent) -> List[Tuple[str, Any]]:
    out = []
    for name, obj in sorted(network_attrs(agent).items()):
        if isinstance(obj, list):
            for i, m in enumerate(obj):
                out.append((f"{name}[{i}]", m))
        else:
            out.append((name, obj))
    return out


def optimizers(agent) -> List[Tuple[str, Any]]:
    from agilerl.algorithms.core.wrappers import OptimizerWrapper

    out = []
    for name, obj in sorted(agent.evolvable_attributes().items()):
        if isinstance(obj, OptimizerWrapper):
            out.append((name, obj))
    return out


def torch_optims(wrapper) -> List[Any]:
    o = wrapper.optimizer
    return list(o) if isinstance(o, list) else [o]


def probe_inputs(cfg: Dict[str, Any], seed: int, n: int = 4):
    r = np.random.RandomState(seed % (2**32 - 1))
    o_sp, a_sp = spaces_of(cfg)
    if cfg["algo"] in MULTI:
        ids = ma_ids(cfg)
        obs = {a: sample_obs(o_sp[i], r, n) for i, a in enumerate(ids)}
        act = {}
        for i, a in enumerate(ids):
            if isinstance(a_sp[i], spaces.Discrete):
                act[a] = r.random_sample((n, a_sp[i].n)).astype(np.float32)
            else:
                act[a] = sample_act(a_sp[i], r, n)
        return obs, act
    if cfg["algo"] in ("NeuralUCB", "NeuralTS"):
        return sample_obs(o_sp, r, a_sp.n), None
    return sample_obs(o_sp, r, n), sample_act(a_sp, r, n)


class _EvalMode:
    def __init__(self, mods):
        self.mods = mods

    def __enter__(self):
        self.flags = [m.training for m in self.mods]
        for m in self.mods:
            m.eval()

    def __exit__(self, *a):
        for m, f in zip(self.mods, self.flags):
            m.train(f)


def probe_outputs(agent, cfg: Dict[str, Any], probes) -> Dict[str, torch.Tensor]:
    """Outputs of every evolvable network of the agent on the probe inputs, in eval mode, no grad.
    Works for targets whose weights are not exposed through parameters()/state_dict()."""
    obs, act = probes
    algo = cfg["algo"]
    nets = flat_nets(agent)
    out: Dict[str, torch.Tensor] = {}
    with torch.no_grad(), _EvalMode([m for _, m in nets]):
        if algo in MULTI:
            ids = list(agent.agent_ids)
            pobs = agent.preprocess_observation(obs)
            acts = {a: torch.as_tensor(act[a]).float() for a in ids}
            if algo in ("MADDPG", "MATD3"):
                S = agent.stack_critic_observations(pobs)
                A = torch.cat([acts[a] for a in ids], dim=1)
            for name, m in nets:
                base, i = name.split("[")
                i = int(i[:-1])
                if algo == "IPPO":
                    x = pobs[list(agent.shared_agent_ids)[i]]
                    if base.startswith("actor"):
                        seed_all(12345)
                        res = m(x)
                        out[name] = torch.cat([t.reshape(len(t), -1).float() for t in res if isinstance(t, torch.Tensor)], dim=1)
                    else:
                        out[name] = m(x)
                else:
                    seed_all(12345)  # Gumbel-softmax heads sample
                    if base.startswith("actor"):
                        out[name] = m(pobs[ids[i]])
                    else:
                        out[name] = m(S, A)
            return out
        pobs = agent.preprocess_observation(obs)
        a_t = None if act is None else torch.as_tensor(act).float()
        if a_t is not None and a_t.ndim == 1:
            a_t = a_t.unsqueeze(-1)
        for name, m in nets:
            cname = type(m).__name__
            seed_all(12345)
            if cname == "ContinuousQNetwork":
                out[name] = m(pobs, a_t)
            elif cname == "StochasticActor":
                seed_all(12345)
                res = m(pobs)
                out[name] = torch.cat([t.reshape(len(t), -1).float() for t in res if isinstance(t, torch.Tensor)], dim=1)
            elif cname == "RainbowQNetwork":
                out[name] = m(pobs, q=False)
            else:
                out[name] = m(pobs)
    return out


def tensor_hash(t: torch.Tensor) -> str:
    import hashlib

    a = t.detach().cpu().contiguous().numpy()
    return hashlib.sha1(a.tobytes() + str(a.shape).encode() + str(a.dtype).encode()).hexdigest()[:16]


HP_ATTRS = ["batch_size", "lr", "lr_actor", "lr_critic", "learn_step", "gamma", "tau", "policy_freq", "double", "beta", "n_step",
            "gae_lambda", "clip_coef", "ent_coef", "vf_coef", "update_epochs", "lamb", "reg", "num_atoms", "v_min", "v_max",
            "share_encoders", "normalize_images", "max_grad_norm", "target_kl", "action_std_init", "expl_noise", "O_U_noise",
            "combined_reward", "prior_eps", "noise_std"]
BOOK_ATTRS = ["steps", "scores", "fitness", "mut", "index"]


def _plain(v):
    if isinstance(v, torch.Tensor):
        return ("tensor", tensor_hash(v))
    if isinstance(v, np.ndarray):
        return ("nd", v.shape, v.tolist() if v.size < 32 else tensor_hash(torch.as_tensor(v)))
    if isinstance(v, (list, tuple)):
        return [_plain(x) for x in v]
    if isinstance(v, (np.generic,)):
        return v.item()
    return v


def value_fp(agent, include_index: bool = True) -> Dict[str, Any]:
    """Value fingerprint: every tensor of every network, every optimizer state tensor and param-group scalar,
    every RLParameter field, bookkeeping lists and public hyper-parameters. Component name -> hashable."""
    fp: Dict[str, Any] = {}
    for name, m in flat_nets(agent):
        for k, v in m.state_dict().items():
            if k.endswith("_epsilon"):
                continue
            fp[f"net:{name}:{k}"] = tensor_hash(v)
        fp[f"arch:{name}"] = repr(_arch(m))
    tp = getattr(agent, "target_params", None)
    if tp is not None:
        try:
            for k, v in sorted(tp.flatten_keys(".").items()):
                fp[f"net:target_params:{k}"] = tensor_hash(v)
        except Exception:
            pass
    for name, w in optimizers(agent):
        for oi, opt in enumerate(torch_optims(w)):
            sd = opt.state_dict()
            for gi, g in enumerate(sd["param_groups"]):
                fp[f"opt:{name}[{oi}]:group{gi}"] = repr({k: _plain(v) for k, v in sorted(g.items()) if k != "params"})
            for pid, st in sorted(sd["state"].items()):
                for k, v in sorted(st.items()):
                    fp[f"opt:{name}[{oi}]:state{pid}:{k}"] = tensor_hash(v) if isinstance(v, torch.Tensor) else repr(v)
    for a in HP_ATTRS:
        if hasattr(agent, a):
            fp[f"hp:{a}"] = repr(_plain(getattr(agent, a)))
    for a in BOOK_ATTRS:
        if a == "index" and not include_index:
            continue
        if hasattr(agent, a):
            fp[f"book:{a}"] = repr(_plain(copy.copy(getattr(agent, a))))
    hc = agent.registry.hp_config
    if hc:
        for n_, p in sorted(hc.items()):
            fp[f"hprange:{n_}"] = repr((p.min, p.max, p.shrink_factor, p.grow_factor, p.dtype.__name__))
    if hasattr(agent, "sigma_inv"):
        fp["bandit:sigma_inv"] = tensor_hash(agent.sigma_inv)
    rms = getattr(agent, "obs_rms", None) if type(agent).__name__ == "RSNorm" else None
    if rms is not None:
        def walk(x, path):
            if isinstance(x, dict):
                for k in sorted(x):
                    walk(x[k], f"{path}.{k}")
            elif isinstance(x, (tuple, list)):
                for i, v in enumerate(x):
                    walk(v, f"{path}.{i}")
            else:
                for f_ in ("mean", "var", "count"):
                    fp[f"wrapper:obs_rms{path}:{f_}"] = tensor_hash(getattr(x, f_))
        walk(rms, "")
    return fp


def _arch(m) -> Any:
    """Architecture description of a network: its init_dict with tensors hashed and spaces repr'ed."""
    def norm(v):
        if isinstance(v, dict):
            return {str(k): norm(x) for k, x in sorted(v.items(), key=lambda kv: str(kv[0]))}
        if isinstance(v, (list, tuple)):
            return [norm(x) for x in v]
        if isinstance(v, torch.Tensor):
            return ("tensor", tuple(v.shape))
        if isinstance(v, np.ndarray):
            return ("nd", v.tolist())
        if isinstance(v, (np.generic,)):
            return v.item()
        if isinstance(v, (int, float, str, bool)) or v is None:
            return v
        if hasattr(v, "__dataclass_fields__"):
            return norm({k: getattr(v, k) for k in v.__dataclass_fields__})
        return repr(v)

    try:
        return norm(m.init_dict)
    except Exception as e:  # pragma: no cover
        return f"init_dict failed: {e!r}"


_ATTR_SKIP = ("net_config", "observation_space", "action_space", "observation_spaces", "action_spaces", "possible_observation_spaces", "possible_action_spaces",
              "single_space", "registry", "accelerator", "device")


def walk_tensor_attrs(agent, max_depth: int = 3):
    """Yield (path, tensor-or-array) for every non-empty torch.Tensor / numpy array stored directly or inside lists, tuples and dicts
    of the agent's own attributes (exploration-noise state, action bounds, bandit matrices, ...). Networks and optimizers are not
    descended into - they have their own fingerprints - and the (immutable) spaces are skipped."""
    base = getattr(agent, "agent", agent) if type(agent).__name__ == "RSNorm" else agent
    out = []

    def rec(path, v, depth):
        if isinstance(v, torch.nn.Module) or hasattr(v, "optimizer"):
            return
        if isinstance(v, torch.Tensor):
            if v.numel() > 0:
                out.append((path, v))
        elif isinstance(v, np.ndarray):
            if v.size > 0 and v.dtype != object:
                out.append((path, v))
        elif depth < max_depth and isinstance(v, (list, tuple)):
            for i, x in enumerate(v):
                rec(f"{path}[{i}]", x, depth + 1)
        elif depth < max_depth and isinstance(v, dict):
            for k in sorted(v, key=str):
                rec(f"{path}[{k}]", v[k], depth + 1)

    for attr in sorted(vars(base)):
        if attr.startswith("_") or attr in _ATTR_SKIP:
            continue
        rec(attr, vars(base)[attr], 0)
    return out


def attr_fp(agent) -> Dict[str, Any]:
    """Value fingerprint of tensor / array state kept outside networks and optimizers (see walk_tensor_attrs)."""
    return {f"attr:{path}": tensor_hash(torch.as_tensor(v)) for path, v in walk_tensor_attrs(agent)}


def storage_fp(agent) -> Dict[Tuple[int, int], str]:
    """Storage fingerprint: data pointers of trainable parameters, optimizer state tensors, and ids of mutable
    registry / bookkeeping objects. Key -> component name."""
    fp: Dict[Tuple[int, int], str] = {}
    for name, m in flat_nets(agent):
        for k, p in m.named_parameters():
            fp[(p.untyped_storage().data_ptr(), 0)] = f"param:{name}:{k}"
    for name, w in optimizers(agent):
        for oi, opt in enumerate(torch_optims(w)):
            for p, st in opt.state.items():
                for k, v in st.items():
                    if isinstance(v, torch.Tensor):
                        fp[(v.untyped_storage().data_ptr(), 1)] = f"optstate:{name}[{oi}]:{k}"
    for a in ("scores", "fitness", "steps"):
        if hasattr(agent, a):
            fp[(id(getattr(agent, a)), 2)] = f"list:{a}"
    hc = agent.registry.hp_config
    if hc:
        for n_, p in hc.items():
            fp[(id(p), 3)] = f"rlparam:{n_}"
    fp[(id(agent.registry), 4)] = "registry"
    # tensor-valued state kept outside the networks (e.g. the bandits' sigma_inv / theta_0)
    for attr, val in vars(getattr(agent, "agent", agent)).items():
        if isinstance(val, torch.Tensor) and val.numel() > 0 and not attr.startswith("_"):
            fp[(val.untyped_storage().data_ptr(), 6)] = f"tensor_attr:{attr}"
    # (tensors / arrays nested in list or dict attributes - exploration-noise state, action bounds - are covered by value:
    # attr_fp() is part of the bystander snapshots, so an alias shows as soon as the library writes through it; constant arrays that
    # the library never writes to may legitimately be shared)
    rms = getattr(agent, "obs_rms", None) if type(agent).__name__ == "RSNorm" else None
    if rms is not None:
        stack = [rms]
        while stack:
            x = stack.pop()
            if isinstance(x, dict):
                stack.extend(x.values())
            elif isinstance(x, (tuple, list)):
                stack.extend(x)
            else:
                fp[(id(x), 5)] = "wrapper:obs_rms"
    return fp
