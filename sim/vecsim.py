"""vecsim - the vectorised multi-agent environment under a deterministic scheduler (C12, C13).

AsyncPettingZooVecEnv and its worker function `_async_worker` run unmodified, fully in-process: the module attributes
`mp`, `time` and `np` of agilerl.vector.pz_async_vec_env are replaced for one run by the fake multiprocessing context,
the virtual clock and a numpy proxy whose shared-memory copy is a scheduling point. Worker "processes" are real
threads parked and released one at a time; the seeded scheduler decides every interleaving, scripted delays decide
completion order in virtual time, and the fault plan makes sub-environments raise, stall past the timeout or die at a
chosen (worker, command, call number)."""
from __future__ import annotations

import copy
import os
import random
from typing import Any, Dict, List, Optional, Tuple

import numpy as np

from sim import kernel
from sim.envs import FAULT_EXCEPTIONS, PZ_OBS_KINDS, ScriptPZ
from sim.sched import Deadlock, Scheduler, StepCap
from sim.simmp import NpProxy, SimMP, SimTime

MSGS = ["boom", "rate 100% exceeded", "bad {key} in %s", "ünïcode ✓", "value %d of %(name)s", "dump:" + "x" * 40000]  # the last one: an exception that carries 40 kB of state


class World:
    def __init__(self, sched: Scheduler, case: Dict[str, Any], ctx: kernel.Ctx):
        self.sched = sched
        self.ctx = ctx
        self.delays = {(e, c, n): d for e, c, n, d in case.get("delays", [])}
        self.faults = {(e, c, n): f for e, c, n, f in case.get("faults", [])}
        self.fired_list: List[Tuple] = []
        self.sleeps: List[Tuple[int, float, float]] = []  # (env, start, duration) in virtual time

    def slept(self, env: int, d: float) -> None:
        self.sleeps.append((env, self.sched.now, float(d)))
        self.ctx.fault("worker_slow" if d < 0.3 else "worker_stall")

    def fired(self, key, f) -> None:
        self.fired_list.append((key, f))
        self.ctx.fault(f"worker_{f['kind']}" + (":" + f["exc"] if f["kind"] == "raise" else ""))
        self.ctx.log(f"worker{key[0]}", "fault", {"at": list(key), "kind": f["kind"]})


# ------------------------------------------------------------------------------------------------
# sequential reference: N independent environments stepped one after the other in the client
# ------------------------------------------------------------------------------------------------
class RefVec:
    def __init__(self, spec: Dict[str, Any], n: int):
        self.envs = [ScriptPZ(spec, i, None) for i in range(n)]
        self.n = n
        self.agents = self.envs[0].possible_agents

    def reset(self, seed, options=None):
        out = []
        for i, e in enumerate(self.envs):
            s = None if seed is None else (seed[i] if isinstance(seed, (list, tuple)) else seed + i)
            out.append(e.reset(seed=s, options=options))
        return out

    def step(self, actions: Dict[str, np.ndarray]):
        out = []
        for i, e in enumerate(self.envs):
            acts = {a: actions[a][i] for a in e.agents}
            o, r, te, tr, inf = e.step(acts)
            auto = all(te[a] or tr[a] for a in o)
            if auto:
                o2, inf2 = e.reset()
                out.append((o2, r, te, tr, inf2, True, o))
            else:
                out.append((o, r, te, tr, inf, False, None))
        return out


def _leaves(x) -> List[np.ndarray]:
    if isinstance(x, dict):
        return [l for k in sorted(x) for l in _leaves(x[k])]
    if isinstance(x, (tuple, list)):
        return [l for v in x for l in _leaves(v)]
    return [np.asarray(x)]


def _row(x, i):
    if isinstance(x, dict):
        return {k: _row(v, i) for k, v in x.items()}
    if isinstance(x, (tuple, list)):
        return tuple(_row(v, i) for v in x)
    return np.asarray(x)[i]


def _same_obs(got_row, want) -> bool:
    g, w = _leaves(got_row), _leaves(want)
    if len(g) != len(w):
        return False
    for a, b in zip(g, w):
        a, b = np.asarray(a), np.asarray(b)
        if a.size != b.size or not np.array_equal(a.reshape(-1), b.reshape(-1).astype(a.dtype)):
            return False
    return True


def _actions(spec, agents, n, seed) -> Dict[str, np.ndarray]:
    r = np.random.RandomState(seed % (2**32 - 1))
    if spec["act_kind"] == "discrete":
        return {a: r.randint(0, 4, size=n) for a in agents}
    return {a: r.uniform(-1, 1, size=(n, 2)).astype(np.float32) for a in agents}


# ------------------------------------------------------------------------------------------------
# generators
# ------------------------------------------------------------------------------------------------
def _gen_spec(rng: random.Random) -> Dict[str, Any]:
    return {"n_agents": rng.choice([1, 2, 2, 3]), "obs_kind": rng.choice(PZ_OBS_KINDS), "act_kind": rng.choice(["discrete", "box"]),
            "ending": rng.choice(["term", "trunc", "mixed"]), "len_seed": rng.randrange(1000), "max_len": rng.choice([1, 2, 3, 5]),
            "leave": False}


def gen_c12(rng: random.Random, tier: str) -> Dict[str, Any]:
    spec = _gen_spec(rng)
    spec["leave"] = spec["n_agents"] > 1 and rng.random() < 0.2
    n = rng.choice([1, 2, 3, 4, 5])

    def a_seed():
        # None, boundary value 0, ordinary integers, and explicit per-environment lists (which may contain 0 and repeats)
        x = rng.random()
        if x < 0.25:
            return None
        if x < 0.4:
            return 0
        if x < 0.75:
            return rng.randrange(1000)
        return [rng.choice([0, 0, 1, rng.randrange(1000)]) for _ in range(n)]

    def a_opts():
        return rng.choice([None, None, None, {"episode": rng.randrange(2, 30)}])

    ops = [{"op": "reset", "seed": a_seed(), "options": a_opts()}]
    for _ in range(rng.randint(3, 14 if tier == "quick" else 40)):
        if rng.random() < 0.08:
            ops.append({"op": "reset", "seed": a_seed(), "options": a_opts()})
        else:
            ops.append({"op": "step", "seed": rng.getrandbits(31)})
    delays = []
    if rng.random() < 0.7:
        for e in range(n):
            for k in range(1, 8):
                if rng.random() < 0.5:
                    delays.append([e, "step", k, round(rng.choice([0.001, 0.01, 0.1]) * (1 + rng.random()), 4)])
    return {"engine": "vecsim", "prop": "C12", "spec": spec, "n_envs": n, "copy": rng.random() < 0.6, "delays": delays, "faults": [],
            "sched_seed": rng.getrandbits(31), "target": rng.choice(["vec", "vec", "vec", "wrapper"]), "ops": ops,
            "act_key_order": rng.choice(["natural", "natural", "reversed"])}


CALLS = ["reset_async", "reset_wait", "step_async", "step_wait", "call_async", "call_wait", "set_attr", "get_attr", "close"]


def gen_c13(rng: random.Random, tier: str, fault_override: Optional[List] = None) -> Dict[str, Any]:
    spec = _gen_spec(rng)
    n = rng.choice([1, 2, 3, 4])
    ops: List[Dict[str, Any]] = []
    length = rng.randint(3, 15)
    pending = None
    misuse_rate = rng.choice([0.0, 0.15, 0.35])
    while len(ops) < length:
        if rng.random() < misuse_rate:
            # the synchronous wrappers (reset / step / call) are only exercised as misuse: issued while another call is pending
            ops.append(_mk_op(rng, rng.choice(CALLS[:-1] + (["reset", "step", "call"] if pending is not None else []))))
            continue
        if pending is None:
            k = rng.choice(["reset", "step", "step", "call", "set_attr", "get_attr"])
            if k in ("set_attr", "get_attr"):
                ops.append(_mk_op(rng, k))
            else:
                ops.append(_mk_op(rng, k + "_async"))
                pending = k
        else:
            ops.append(_mk_op(rng, pending + "_wait"))
            pending = None
    if rng.random() < 0.3:
        ops.insert(rng.randrange(len(ops) + 1), {"op": "close", "terminate": rng.random() < 0.3, "timeout": rng.choice([None, None, 0, 0.5])})
    faults = fault_override if fault_override is not None else []
    if fault_override is None:
        for _ in range(rng.choice([0, 1, 1, 1, 2])):
            faults.append(_mk_fault(rng, n))
    delays = []
    if rng.random() < 0.5:
        for e in range(n):
            for c in ("reset", "step", "call"):
                if rng.random() < 0.4:
                    delays.append([e, c, rng.randint(1, 3), round(rng.choice([0.013, 0.07, 0.23]), 4)])
    case = {"engine": "vecsim", "prop": "C13", "spec": spec, "n_envs": n, "copy": True, "delays": delays, "faults": faults,
            "sched_seed": rng.getrandbits(31), "final_close": {"terminate": rng.random() < 0.15, "timeout": rng.choice([None, None, 0, 0.5])}, "ops": ops}
    # fault enumeration: for this call sequence every single fault (worker x command x call number x kind) is tried once,
    # completely in the thorough tier and for a slice of the space in a tenth of the quick cases
    if fault_override is None and (tier == "thorough" or rng.random() < 0.1):
        sweep = [faults]
        envs = range(n) if tier == "thorough" else [rng.randrange(n)]
        calls = (1, 2, 3) if tier == "thorough" else (1, 2)
        exc = rng.choice(sorted(FAULT_EXCEPTIONS))
        msg = rng.choice(MSGS)
        for e in envs:
            for cmd in ("reset", "step", "call", "setattr"):
                for k in calls:
                    for f in ({"kind": "raise", "exc": exc, "msg": msg}, {"kind": "sleep", "d": rng.choice([0.31, 7.3])}, {"kind": "die"}):
                        sweep.append([[e, cmd, k, f]])
        case["fault_sweep"] = sweep
    return case


def _mk_op(rng: random.Random, name: str) -> Dict[str, Any]:
    op: Dict[str, Any] = {"op": name}
    if name.endswith("_wait"):
        op["timeout"] = rng.choice([None, None, 0, 0.05, 0.5, 2.0])  # 0 = poll without blocking
    if name in ("reset_async",):
        op["seed"] = rng.choice([None, rng.randrange(1000)])
    if name in ("step_async",):
        op["seed"] = rng.getrandbits(31)
    return op


def _mk_fault(rng: random.Random, n: int) -> List:
    cmd = rng.choice(["reset", "step", "step", "call", "setattr"])
    kind = rng.choice(["raise", "raise", "sleep", "die"])
    f: Dict[str, Any] = {"kind": kind}
    if kind == "raise":
        f["exc"] = rng.choice(sorted(FAULT_EXCEPTIONS))
        f["msg"] = rng.choice(MSGS)
    elif kind == "sleep":
        f["d"] = rng.choice([0.031, 0.31, 1.7, 7.3])
    return [rng.randrange(n), cmd, rng.randint(1, 3), f]


def gen(prop: str, rng: random.Random, tier: str) -> Dict[str, Any]:
    case = gen_c12(rng, tier) if prop == "C12" else gen_c13(rng, tier)
    # start method of the simulated multiprocessing context: "fork" (three quarters of the cases; the real default) lets every worker
    # inherit all descriptors open in the parent when it is started; decided from the schedule seed, so no extra draw shifts the generator
    case["start_method"] = "fork" if case["sched_seed"] % 4 else "spawn"
    return case


# ------------------------------------------------------------------------------------------------
# running
# ------------------------------------------------------------------------------------------------
class Patched:
    def __init__(self, sched: Scheduler, ctx: kernel.Ctx, fork_inherit: bool = False):
        import agilerl.vector.pz_async_vec_env as pz

        self.pz = pz
        self.saved = (pz.mp, pz.time, pz.np)
        self.simmp = SimMP(sched, counter=ctx.probe, fork_inherit=fork_inherit)
        pz.mp = self.simmp
        pz.time = SimTime(sched)
        pz.np = NpProxy(sched, np)

    def restore(self) -> None:
        self.pz.mp, self.pz.time, self.pz.np = self.saved


def _quiet_logger():
    import gymnasium.logger as gl

    lvl = gl.min_level
    gl.min_level = 100  # suppress console output; logger.error still formats its message (msg % args)
    return lvl


def run(prop: str, case: Dict[str, Any]) -> Dict[str, Any]:
    import warnings

    warnings.filterwarnings("ignore")
    ctx = kernel.Ctx(prop, case)
    sweep = case.get("fault_sweep") or [case.get("faults", [])]
    for si, faults in enumerate(sweep):
        sub = case if len(sweep) == 1 else dict(case, faults=faults)
        if len(sweep) > 1:
            ctx.log("sweep", "fault_plan", {"i": si, "faults": faults})
            ctx.probe("fault_plans_enumerated")
        _run_one(ctx, prop, sub, kernel.derive(case["sched_seed"], si) if si else case["sched_seed"])
        if ctx.violations:
            if len(sweep) > 1:
                for v in ctx.violations:
                    v["msg"] = f"[fault plan {si}: {faults}] " + v["msg"]
                # the single-plan case that failed: this (not the whole sweep) is what gets minimised and replayed
                red = {k: v for k, v in case.items() if k not in ("fault_sweep", "_venvs", "_phase")}
                red["faults"] = faults
                red["sched_seed"] = kernel.derive(case["sched_seed"], si) if si else case["sched_seed"]
                res = ctx.result()
                res["reduced_case"] = red
                return res
            break
    return ctx.result()


def _run_one(ctx: kernel.Ctx, prop: str, case: Dict[str, Any], sched_seed: int) -> None:
    sched = Scheduler(random.Random(sched_seed), step_cap=case.get("step_cap", 20000), on_decision=lambda name: ctx.log("sched", "run", name))
    world = World(sched, case, ctx)
    loc = {"obs_kind": case["spec"]["obs_kind"]}
    patched = None
    import gymnasium.logger as gl

    old_level = gl.min_level
    try:
        if case.get("target") == "wrapper":
            _run_wrapper(ctx, case, loc)
        else:
            patched = Patched(sched, ctx, fork_inherit=case.get("start_method") == "fork")
            if prop == "C12":
                _run_c12(ctx, case, sched, world, patched, loc)
            else:
                _run_c13(ctx, case, sched, world, patched, loc)
    except (Deadlock, StepCap) as e:
        ctx.report(f"{prop}/hang:{case.get('_phase', 'run')}", f"{type(e).__name__} during {case.get('_phase')}: {str(e)[:400]}", phase=str(case.get("_phase")))
    except kernel.HarnessError:
        raise
    except Exception as e:
        info = kernel.classify_exception(e, os.environ.get("VERIF_REPO", "/repo"))
        if info["where"] != "repo":
            raise
        ctx.report(f"{prop}/exception:{info['type']}@{info['site']}", f"{type(e).__name__}: {str(e)[:300]} during {case.get('_phase')}", **loc)
    finally:
        sched.shutdown()
        for v in case.pop("_venvs", []):
            v.closed = True  # its __del__ must not try to talk to the (finished) simulation
        if patched is not None:
            patched.restore()
        gl.min_level = old_level
    ctx.sim_time += sched.now
    ctx.steps += sched.decisions
    ctx.state(("schedule", kernel.derive(0, *sched.trace[:200])))
    case.pop("_phase", None)


def _make(case, world, patched):
    from agilerl.vector.pz_async_vec_env import AsyncPettingZooVecEnv

    spec, n = case["spec"], case["n_envs"]
    env_fns = [(lambda i=i: ScriptPZ(spec, i, world)) for i in range(n)]
    v = AsyncPettingZooVecEnv(env_fns, copy=case.get("copy", True))
    case.setdefault("_venvs", []).append(v)
    return v


def _check_reset(ctx, case, venv, ref, got, seed, loc, tag="reset", options=None) -> None:
    obs, infos = got
    want = ref.reset(seed, options)
    if options:
        ctx.probe("reset_with_options")
    for i, (o, inf) in enumerate(want):
        for a in ref.agents:
            if not _same_obs(_row(obs[a], i), o[a]):
                ctx.report("C12/obs:reset", f"{tag}(seed={seed}): observation of env {i} agent {a} is {_leaves(_row(obs[a], i))[0].reshape(-1)[:4]}, "
                                            f"the environment alone returns {_leaves(o[a])[0].reshape(-1)[:4]} (env i must receive seed+i)", **loc)
                return
            t = infos.get(a, {}).get("t")
            if t is None or int(np.asarray(t)[i]) != inf[a]["t"] or not bool(infos[a]["_t"][i]):
                ctx.report("C12/info", f"{tag}: info of env {i} agent {a} is {infos.get(a)}, expected t={inf[a]['t']}", **loc)
                return


def _check_shapes(ctx, venv, obs, n, loc) -> None:
    from gymnasium import spaces

    for a, x in obs.items() if hasattr(obs, "items") else []:
        sp = venv._single_observation_spaces[a] if hasattr(venv, "_single_observation_spaces") else None
        if sp is None or isinstance(sp, spaces.Discrete):
            continue  # the statement lists vector, image, dict and tuple for the shape / dtype clause

        def chk(arr, s, path):
            arr = np.asarray(arr)
            if arr.shape != (n,) + s.shape or arr.dtype != s.dtype:
                ctx.report("C12/obs:shape_dtype", f"observation {a}{path} has shape {arr.shape} dtype {arr.dtype}, declared {(n,) + s.shape} {s.dtype}", **loc)

        if isinstance(sp, spaces.Dict):
            for k, s in sp.spaces.items():
                if not isinstance(s, spaces.Discrete):
                    chk(x[k], s, f"[{k}]")
        elif isinstance(sp, spaces.Tuple):
            for j, s in enumerate(sp.spaces):
                if not isinstance(s, spaces.Discrete):
                    chk(x[j], s, f"[{j}]")
        else:
            chk(x, sp, "")


def _check_step(ctx, case, venv, ref, got, actions, loc) -> bool:
    want = ref.step(actions)
    try:
        return _check_step_inner(ctx, case, venv, ref, got, want, loc)
    except (ValueError, TypeError, IndexError, KeyError, AttributeError) as e:
        ctx.report("C12/malformed_result", f"step result cannot be read position by position: {type(e).__name__}: {str(e)[:200]}", **loc)
        return False


def _check_step_inner(ctx, case, venv, ref, got, want, loc) -> bool:
    obs, rew, term, trunc, infos = got
    ok = True
    for i, (o, r, te, tr, inf, auto, final_o) in enumerate(want):
        if auto:
            ctx.probe("auto_reset")
        for a in ref.agents:
            if a not in o:
                ctx.probe("agent_left_early")
                continue  # the agent has left the episode: the statement does not define its placeholder values
            if not _same_obs(_row(obs[a], i), o[a]):
                cls = "C12/obs:autoreset_not_first_obs" if auto else "C12/obs:step"
                extra = ""
                if auto and final_o is not None and a in final_o and _same_obs(_row(obs[a], i), final_o[a]):
                    extra = " (it is the last observation of the finished episode)"
                ctx.report(cls, f"step: observation of env {i} agent {a} = {_leaves(_row(obs[a], i))[0].reshape(-1)[:4]}, the environment alone "
                                f"{'resets and ' if auto else ''}returns {_leaves(o[a])[0].reshape(-1)[:4]}{extra}", ending=case["spec"]["ending"], **loc)
                ok = False
                break
            if a not in r:
                continue  # left earlier in the episode that just ended: only the fresh observation is defined
            if float(np.asarray(rew[a])[i]) != float(r[a]):
                ctx.report("C12/reward", f"step: reward of env {i} agent {a} = {float(np.asarray(rew[a])[i])!r}, the environment alone returns {r[a]!r}", **loc)
                ok = False
                break
            if bool(np.asarray(term[a])[i]) != te[a] or bool(np.asarray(trunc[a])[i]) != tr[a]:
                ctx.report("C12/flags", f"step: env {i} agent {a} terminated/truncated = {bool(np.asarray(term[a])[i])}/{bool(np.asarray(trunc[a])[i])}, "
                                        f"alone {te[a]}/{tr[a]}", **loc)
                ok = False
                break
            if not auto:
                t = infos.get(a, {}).get("t") if isinstance(infos, dict) else None
                if t is None or int(np.asarray(t)[i]) != inf[a]["t"] or not bool(infos[a]["_t"][i]):
                    ctx.report("C12/info", f"step: info of env {i} agent {a} = {infos.get(a) if isinstance(infos, dict) else infos}, alone {inf[a]}", **loc)
                    ok = False
                    break
        if not ok:
            break
    return ok


def _run_c12(ctx, case, sched, world, patched, loc) -> None:
    case["_phase"] = "construct"
    venv = _make(case, world, patched)
    n = case["n_envs"]
    ref = RefVec(case["spec"], n)
    handed: List[Tuple[Any, Any]] = []
    n_steps = 0
    try:
        for oi, op in enumerate(case["ops"]):
            ctx.op_index = oi
            case["_phase"] = op["op"]
            if op["op"] == "reset":
                got = venv.reset(seed=op["seed"], options=op.get("options"))
                ctx.log("client", "reset", {"seed": op["seed"], "options": op.get("options")})
                _check_reset(ctx, case, venv, ref, got, op["seed"], loc, options=op.get("options"))
                _check_shapes(ctx, venv, got[0], n, loc)
                obs = got[0]
            else:
                actions = _actions(case["spec"], ref.agents, n, op["seed"])
                # a dict is addressed by key: the order in which the caller happened to insert the agents must not matter
                order = list(ref.agents)[::-1] if case.get("act_key_order") == "reversed" else list(ref.agents)
                got = venv.step({a: actions[a] for a in order})
                n_steps += 1
                ctx.log("client", "step", {"seed": op["seed"]})
                if not _check_step(ctx, case, venv, ref, got, actions, loc):
                    break
                _check_shapes(ctx, venv, got[0], n, loc)
                obs = got[0]
            if case.get("copy", True) and isinstance(obs, dict):
                for k, (o_, snap) in enumerate(handed):
                    if any(not np.array_equal(x, y) for x, y in zip(_leaves(o_), _leaves(snap))):
                        ctx.report("C12/copy_mode_obs_altered", f"an observation returned {len(handed) - k} calls ago changed after op {oi}", **loc)
                        handed[k] = (o_, copy.deepcopy(dict(o_)))
                handed.append((obs, copy.deepcopy(dict(obs))))
                handed = handed[-3:]
    finally:
        case["_phase"] = "close"
        venv.close()
    if any(p.is_alive() for p in venv.processes):
        ctx.report("C12/worker_alive_after_close", "worker alive after close()", **loc)
    ctx.nontrivial = n_steps >= 2 and n >= 1
    ctx.state((case["spec"]["obs_kind"], case["spec"]["ending"], n, case["spec"]["n_agents"]))


def _run_wrapper(ctx, case, loc) -> None:
    """PettingZooAutoResetParallelWrapper around one scripted environment (no scheduler needed, same reference)."""
    from agilerl.wrappers.pettingzoo_wrappers import PettingZooAutoResetParallelWrapper

    loc = dict(loc, target="PettingZooAutoResetParallelWrapper")
    spec = case["spec"]
    env = PettingZooAutoResetParallelWrapper(ScriptPZ(spec, 0, None))
    ref = RefVec(spec, 1)
    n_steps = 0
    for oi, op in enumerate(case["ops"]):
        ctx.op_index = oi
        if op["op"] == "reset":
            sd = op["seed"][0] if isinstance(op["seed"], list) else op["seed"]  # a single environment takes a single seed
            obs, info = env.reset(seed=sd)
            (o, inf), = ref.reset(sd)
            if any(not _same_obs(obs[a], o[a]) for a in o):
                ctx.report("C12/obs:reset", "wrapper reset observation differs from the wrapped environment's", **loc)
        else:
            acts = _actions(spec, ref.agents, 1, op["seed"])
            live = list(ref.envs[0].agents)
            obs, rew, te, tr, info = env.step({a: acts[a][0] for a in live})
            (o, r, wte, wtr, inf, auto, final_o), = ref.step(acts)
            n_steps += 1
            ctx.log("client", "step", {"auto": auto})
            if auto:
                ctx.probe("auto_reset")
            if any(a not in obs or not _same_obs(obs[a], o[a]) for a in o):
                ctx.report("C12/obs:autoreset_not_first_obs" if auto else "C12/obs:step",
                           f"wrapper step: all agents finished={auto} (ending {spec['ending']}); returned observation is not the {'first observation of the new episode' if auto else 'step observation'}",
                           ending=spec["ending"], **loc)
                break
            if any(a not in rew or float(rew[a]) != float(r[a]) or bool(te[a]) != wte[a] or bool(tr[a]) != wtr[a] for a in r):
                ctx.report("C12/flags", "wrapper step: reward / termination / truncation differ from the wrapped environment's", **loc)
                break
    ctx.nontrivial = n_steps >= 2
    ctx.state(("wrapper", spec["obs_kind"], spec["ending"], spec["n_agents"]))


# ---- C13 ---------------------------------------------------------------------------------
def _run_c13(ctx, case, sched, world, patched, loc) -> None:
    from gymnasium.error import AlreadyPendingCallError, ClosedEnvironmentError, NoAsyncCallError
    import multiprocessing as real_mp

    case["_phase"] = "construct"
    venv = _make(case, world, patched)
    n = case["n_envs"]
    ref = RefVec(case["spec"], n)
    state = "default"  # model of the documented async state machine
    closed = False
    broken = None  # after a worker fault / timeout nothing but close() is demanded
    pend: Dict[str, Any] = {}
    counters = {"reset": 0, "step": 0, "call": 0, "setattr": 0}
    t_async = 0.0

    def planned(cmd: str):
        """faults / stalls that will fire in the workers for the command issued now"""
        k = counters[cmd] + 1
        fs = {e: world.faults[(e, cmd, k)] for e in range(n) if (e, cmd, k) in world.faults}
        stall = {e: world.delays.get((e, cmd, k), 0.0) + (fs[e]["d"] if e in fs and fs[e]["kind"] == "sleep" else 0.0) for e in range(n)}
        return fs, stall

    def expect_misuse(fn, exc, what) -> bool:
        try:
            fn()
        except exc:
            ctx.probe("misuse:" + exc.__name__)
            return True
        except (Deadlock, StepCap):
            raise
        except Exception as e:
            ctx.report("C13/misuse:wrong_error", f"{what}: expected {exc.__name__}, got {type(e).__name__}: {str(e)[:200]}", call=what.split(" ")[0], **loc)
            return False
        ctx.report("C13/misuse:not_rejected", f"{what}: expected {exc.__name__}, the call succeeded", call=what.split(" ")[0], **loc)
        return False

    for oi, op in enumerate(case["ops"]):
        ctx.op_index = oi
        name = op["op"]
        case["_phase"] = name
        ctx.log("client", "call", {"op": name, "state": state})
        if broken:
            break
        if closed:
            if name == "close":
                venv.close()
                continue
            fn = {"reset_async": lambda: venv.reset_async(), "reset_wait": lambda: venv.reset_wait(), "step_async": lambda: venv.step_async([[0] * len(ref.agents)] * n),
                  "step_wait": lambda: venv.step_wait(), "call_async": lambda: venv.call_async("probe_call"), "call_wait": lambda: venv.call_wait(),
                  "set_attr": lambda: venv.set_attr("fragile", 1), "get_attr": lambda: venv.get_attr("fragile"),
                  "reset": lambda: venv.reset(), "step": lambda: venv.step(_actions(case["spec"], ref.agents, n, 0)), "call": lambda: venv.call("probe_call", 1)}[name]
            expect_misuse(fn, ClosedEnvironmentError, f"{name} after close()")
            continue
        if name in ("reset", "step", "call"):
            if state == "default":
                ctx.probe("sync_wrapper_in_default_state_skipped")
                continue
            fn = {"reset": lambda: venv.reset(seed=3), "step": lambda: venv.step(_actions(case["spec"], ref.agents, n, 0)), "call": lambda: venv.call("probe_call", 1)}[name]
            # rejected, and the pending call must still be there afterwards (its wait is part of the generated sequence)
            expect_misuse(fn, AlreadyPendingCallError, f"synchronous {name}() while a {state} call is pending")
            continue
        if name == "close":
            okc = _do_close(ctx, case, sched, world, venv, {"terminate": op.get("terminate", False), "timeout": op.get("timeout")}, loc, pending=state != "default")
            closed = True
            if not okc:
                broken = "close_failed"
            continue
        kind, _, phase = name.partition("_")
        if name in ("reset_async", "step_async", "call_async"):
            if state != "default":
                def call():
                    if kind == "reset":
                        venv.reset_async(seed=op.get("seed"))
                    elif kind == "step":
                        venv.step_async([[0] * len(ref.agents)] * n)
                    else:
                        venv.call_async("probe_call", 1)
                expect_misuse(call, AlreadyPendingCallError, f"{name} while a {state} call is pending")
                continue
            pend = {"kind": kind, "fired_mark": len(world.fired_list), "sleep_mark": len(world.sleeps)}
            t_async = sched.now
            if kind == "reset":
                pend["seed"] = op.get("seed")
                venv.reset_async(seed=op.get("seed"))
            elif kind == "step":
                acts = _actions(case["spec"], ref.agents, n, op.get("seed", 0))
                pend["actions"] = acts
                lst = [[(int(acts[a][i]) if np.isscalar(acts[a][i]) or np.asarray(acts[a][i]).ndim == 0 else acts[a][i]) for a in ref.agents] for i in range(n)]
                venv.step_async(lst)
            else:
                venv.call_async("probe_call", 1)
            state = kind
            continue
        if name in ("reset_wait", "step_wait", "call_wait"):
            timeout = op.get("timeout")
            fnw = {"reset": venv.reset_wait, "step": venv.step_wait, "call": venv.call_wait}[kind]
            if state != kind:
                expect_misuse(lambda: fnw(timeout), NoAsyncCallError, f"{name} without a pending {kind} call (state {state})")
                continue
            t_wait = sched.now
            deadline = float("inf") if timeout is None else t_wait + float(timeout)
            try:
                got = fnw(timeout)
                err = None
            except (Deadlock, StepCap):
                raise
            except BaseException as e:
                got, err = None, e
            state = "default"
            ctx.log("client", "wait_result", {"err": type(err).__name__ if err else None})
            # what the workers did for this command, observed post hoc (faults are keyed on the sub-environment's own call
            # counters, which also count the resets a step triggers)
            fired = world.fired_list[pend["fired_mark"]:]
            raisers = {k[0]: f for k, f in fired if f["kind"] == "raise"}
            dies = [k[0] for k, f in fired if f["kind"] == "die"]
            ends = [st + d for (e_, st, d) in world.sleeps[pend["sleep_mark"]:]]
            late = [x for x in ends if x > deadline + 1e-9]
            if dies:
                ctx.probe("worker_died_during_call")
                broken = "die"
                continue
            if isinstance(err, real_mp.TimeoutError):
                if not late and timeout == 0:
                    # a non-blocking poll may find a worker that simply has not been scheduled yet: reporting that as a timeout is right
                    ctx.probe("zero_timeout_poll_timed_out")
                elif not late:
                    ctx.report("C13/timeout:false", f"{name}(timeout={timeout}) timed out at t={sched.now:.3f} although every worker had finished its scripted stalls by "
                                                    f"t={max(ends) if ends else t_async:.3f} (waited from t={t_wait:.3f})", call=name, **loc)
                else:
                    ctx.probe("timeout_reported")
                broken = "timeout"
                continue
            if late and not raisers:
                ctx.report("C13/timeout:not_reported", f"{name}(timeout={timeout}) issued at t={t_wait:.3f} returned {'normally' if err is None else type(err).__name__} at t={sched.now:.3f}, "
                                                       f"after its deadline t={deadline:.3f} (a worker was stalled until t={max(late):.3f})", call=name, **loc)
                broken = "timeout"
                continue
            if raisers:
                types = {FAULT_EXCEPTIONS[f["exc"]] for f in raisers.values()}
                if err is None or type(err) not in types:
                    pct = any("%" in f["msg"] for f in raisers.values())
                    ctx.report("C13/worker_exception:wrong_type", f"{name}: sub-environment(s) {sorted(raisers)} raised {[f['exc'] + '(' + repr(f['msg']) + ')' for f in raisers.values()]}, "
                                                                  f"the caller saw {'no exception' if err is None else type(err).__name__ + ': ' + str(err)[:150]}",
                               call=name, percent_in_message=pct, **loc)
                else:
                    ctx.probe("worker_exception_propagated")
                broken = "raise"
                continue
            if err is not None:
                raise err
            # legal, fault-free call: results must match the sequential reference (C12 oracle)
            if kind == "reset":
                _check_reset(ctx, case, venv, ref, got, pend.get("seed"), loc, tag="reset_wait")
            elif kind == "step":
                if not _check_step(ctx, case, venv, ref, got, pend["actions"], loc):
                    broken = "mismatch"
            else:
                if list(got) != [100 * i + 1 for i in range(n)]:
                    ctx.report("C13/call_result", f"call_wait returned {got}", **loc)
            continue
        if name in ("set_attr", "get_attr"):
            if state != "default":
                fn = (lambda: venv.set_attr("fragile", 5)) if name == "set_attr" else (lambda: venv.get_attr("fragile"))
                expect_misuse(fn, AlreadyPendingCallError, f"{name} while a {state} call is pending")
                continue
            mark = len(world.fired_list)
            try:
                if name == "set_attr":
                    venv.set_attr("fragile", 5)
                else:
                    venv.get_attr("fragile")
                err = None
            except (Deadlock, StepCap):
                raise
            except BaseException as e:
                err = e
            fired = world.fired_list[mark:]
            raisers = {k[0]: f for k, f in fired if f["kind"] == "raise"}
            if any(f["kind"] == "die" for k, f in fired):
                broken = "die"
            elif raisers:
                types = {FAULT_EXCEPTIONS[f["exc"]] for f in raisers.values()}
                if err is None or type(err) not in types:
                    ctx.report("C13/worker_exception:wrong_type", f"set_attr: sub-environment raised {[f['exc'] for f in raisers.values()]}, caller saw "
                                                                  f"{'no exception' if err is None else type(err).__name__ + ': ' + str(err)[:150]}",
                               call=name, percent_in_message=any("%" in f["msg"] for f in raisers.values()), **loc)
                broken = "raise"
            elif err is not None:
                raise err
    if not closed and broken != "close_failed":
        _do_close(ctx, case, sched, world, venv, case.get("final_close", {}), loc, pending=state != "default", broken=broken)
    ctx.nontrivial = len(case["ops"]) >= 3
    ctx.state((tuple(o["op"] for o in case["ops"][:6]), tuple((f[1], f[3]["kind"]) for f in case.get("faults", [])), case["n_envs"]))


def _do_close(ctx, case, sched, world, venv, how: Dict[str, Any], loc, pending: bool = False, broken: Optional[str] = None) -> bool:
    case["_phase"] = "close"
    t0 = sched.now
    d0 = sched.decisions
    remaining = sum(d for d in world.delays.values()) + sum(f.get("d", 0.0) for f in world.faults.values())
    kw = {}
    if how.get("terminate"):
        kw["terminate"] = True
    if how.get("timeout") is not None:
        kw["timeout"] = how["timeout"]
    lc = dict(loc, after=broken or ("pending_call" if pending else "idle"))
    try:
        venv.close(**kw)
    except (Deadlock, StepCap) as e:
        ctx.report("C13/hang:close", f"close({kw}) never returns ({type(e).__name__}: {str(e)[:300]}); state before: pending={pending}, after worker fault: {broken}", **lc)
        return False
    except Exception as e:
        ctx.report("C13/close_raises", f"close({kw}) raised {type(e).__name__}: {str(e)[:200]} (pending={pending}, after {broken})", exc=type(e).__name__, **lc)
        okc = False
        # even so, no worker may stay alive
    else:
        okc = True
    ctx.log("client", "closed", {"dt": round(sched.now - t0, 4)})
    if sched.now - t0 > remaining + 1.0:
        ctx.report("C13/close_not_prompt", f"close({kw}) took {sched.now - t0:.2f} simulated seconds; all scripted stalls together are {remaining:.2f}s", **lc)
    elif ("timeout" in kw or "terminate" in kw) and sched.now - t0 > (0.0 if "terminate" in kw else float(kw["timeout"])) + 1e-6:
        # documented: "If the call to close times out, then all processes are terminated" - a close with a time limit never waits longer than that
        ctx.report("C13/close_not_prompt", f"close({kw}) took {sched.now - t0:.3f} simulated seconds, longer than its own time limit (a stalled worker was waited for "
                                           f"instead of being terminated)", **lc)
    if "timeout" in kw or "terminate" in kw:
        ctx.probe("close_with_time_limit")
    alive = [p.name for p in venv.processes if p.is_alive()]
    if alive:
        ctx.report("C13/worker_alive_after_close", f"after close({kw}) these workers are still alive: {alive}", **lc)
    ctx.probe("close_after_" + (broken or ("pending" if pending else "idle")))
    return okc and not alive


def warmup() -> None:
    import agilerl.vector.pz_async_vec_env  # noqa: F401
    import agilerl.wrappers.pettingzoo_wrappers  # noqa: F401


def info(prop: str) -> Dict[str, Any]:
    d = {
        "components_real": ["agilerl.vector.pz_async_vec_env (AsyncPettingZooVecEnv, _async_worker, Observations, shared-memory helpers, unmodified)",
                            "agilerl.vector.pz_vec_env.PettingZooVecEnv", "agilerl.wrappers.pettingzoo_wrappers.PettingZooAutoResetParallelWrapper",
                            "gymnasium.vector.utils (CloudpickleWrapper, clear_mpi_env_vars), gymnasium.logger"],
        "components_stub": ["multiprocessing context: Pipe / Process / Queue / Array (sim.simmp; threads released one at a time by sim.sched)",
                            "time.perf_counter (virtual clock)", "numpy.copyto into shared memory (yields first)", "sub-environments (sim.envs.ScriptPZ)"],
        "assumptions": ["pre-emption happens at synchronisation points and shared-memory copies, not at every bytecode",
                        "pipe / process semantics are those listed in DESIGN.md appendix A (checked against real multiprocessing by selftest/conformance.py)"],
        "state_measure": "distinct schedule traces (hash of the first 200 scheduling decisions) plus configuration tuples",
    }
    if prop == "C12":
        d["rule"] = ("one case = (agents, observation kind, action kind, ending kind, episode-length script, leaving agents) x sub-environments 1-5 x copy mode x scripted per-call "
                     "delays x reset/step sequence x scheduler seed; non-trivial = at least two steps; distinct = distinct event-log digest (includes the schedule)")
        d["expected_probes"] = ["auto_reset", "agent_left_early", "pipe_send"]
    else:
        d["rule"] = ("one case = call sequence of length 3-15 over the async interface (legal and illegal orders) x fault plan (raise E / stall d / die at (worker, command, call no), "
                     "0-2 faults) x timeouts x scheduler seed; thorough tier enumerates the single-fault space of sampled sequences; non-trivial = at least 3 calls")
        d["expected_probes"] = ["misuse:AlreadyPendingCallError", "misuse:NoAsyncCallError", "misuse:ClosedEnvironmentError", "timeout_reported",
                                "worker_exception_propagated", "worker_died_during_call", "close_after_pending", "terminate"]
    return d


def simplifiers(prop: str):
    def fewer(case):
        out = []
        if case.get("n_envs", 1) > 1:
            c = copy.deepcopy(case)
            c["n_envs"] -= 1
            c["faults"] = [f for f in c.get("faults", []) if f[0] < c["n_envs"]]
            c["delays"] = [d for d in c.get("delays", []) if d[0] < c["n_envs"]]
            out.append(c)
        if case.get("delays"):
            c = copy.deepcopy(case)
            c["delays"] = []
            out.append(c)
        if case["spec"].get("n_agents", 1) > 1:
            c = copy.deepcopy(case)
            c["spec"]["n_agents"] -= 1
            out.append(c)
        return out

    return [fewer]
