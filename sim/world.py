"""world - population-world simulator (C01 C02 C05 C06 C07 C08 C19).

The "system" is a population of real AgileRL agents (the nodes) plus their checkpoint storage. A seeded
scheduler decides which party is trained, mutated, cloned, selected, saved, crashed or discarded next; after
every event reference models / cross-invariants are evaluated over *all* parties (non-interference), so
aliasing between parent, clones, siblings and ghosts of earlier generations shows up as interference.
"""
from __future__ import annotations

import copy
import gc
import io
import os
import random
from typing import Any, Dict, List, Optional, Tuple

import numpy as np
import torch

from sim import agents as A
from sim import kernel
from sim.rng import SimRng, seed_all

MUT_KINDS = ["none", "arch", "param", "act", "rl_hp"]


def make_mutations(probs: Dict[str, float], seed: int, mutate_elite: bool = True, new_layer_prob: float = 0.5):
    from agilerl.hpo.mutation import Mutations

    m = Mutations(
        no_mutation=probs.get("none", 0), architecture=probs.get("arch", 0), new_layer_prob=new_layer_prob,
        parameters=probs.get("param", 0), activation=probs.get("act", 0), rl_hp=probs.get("rl_hp", 0),
        mutation_sd=0.1, mutate_elite=mutate_elite, rand_seed=None, device="cpu",
    )
    m.rng = SimRng(seed)
    return m


class World:
    """Executes ops against real agents; oracles hook in through `self.oracle`."""

    def __init__(self, ctx: kernel.Ctx, case: Dict[str, Any]):
        self.ctx = ctx
        self.case = case
        self.cfg = case["cfg"]
        self.pop: List[Any] = []       # live population (ordered)
        self.ghosts: List[Any] = []    # old generations / discarded-but-referenced agents, must never move
        self.saves: Dict[int, bytes] = {}
        self.names: Dict[int, str] = {}  # id(agent) -> stable printable name
        self._refs: Dict[int, Any] = {}
        self._next_name = 0
        self.fps: Dict[int, Dict[str, Any]] = {}
        self.probes = A.probe_inputs(self.cfg, kernel.derive(case.get("cfg_seed", 0), "probes"))
        self.loc = {"algo": self.cfg["algo"]}

    # ---- bookkeeping ------------------------------------------------------------------------
    def name(self, ag) -> str:
        k = id(ag)
        if k not in self.names:
            self.names[k] = f"a{self._next_name}"
            self._next_name += 1
            # keep the object alive while it has a name: a freed agent's id() may be handed to a new one, and names are
            # part of the event log (a run must be a pure function of the case, not of the allocator)
            self._refs[k] = ag
        return self.names[k]

    def forget(self, ag) -> str:
        nm = self.name(ag)
        self.names.pop(id(ag), None)
        self._refs.pop(id(ag), None)
        self.fps.pop(id(ag), None)
        return nm

    def everyone(self) -> List[Any]:
        return self.pop + self.ghosts

    def build_population(self, n: int, shared_hp: bool, seed: int) -> None:
        hp_mode = self.cfg.get("hp", "none")
        shared = A.hp_config(self.cfg) if (hp_mode == "shared" and shared_hp) else None
        for i in range(n):
            if hp_mode == "none":
                hp = None
            elif shared is not None:
                hp = shared
            else:
                hp = A.hp_config(self.cfg)
            ag = A.make_agent(self.cfg, index=i, hp=hp, seed=kernel.derive(seed, "agent", i))
            if self.cfg.get("wrapper") == "RSNorm":
                from agilerl.wrappers.agent import RSNorm

                ag = RSNorm(ag)
            self.pop.append(ag)
            self.name(ag)

    def pick(self, i: int):
        return self.pop[i % len(self.pop)]

    # ---- snapshots for non-interference ------------------------------------------------------
    def snapshot_all(self) -> None:
        self.fps = {id(a): {**A.value_fp(a), **A.attr_fp(a)} for a in self.everyone()}

    def check_non_interference(self, touched: List[Any], what: str, cls_prefix: str = "C01") -> None:
        t = {id(a) for a in touched}
        for a in self.everyone():
            if id(a) in t:
                continue
            old = self.fps.get(id(a))
            if old is None:
                continue
            new = {**A.value_fp(a), **A.attr_fp(a)}
            if new != old:
                moved = sorted(k for k in set(old) | set(new) if old.get(k) != new.get(k))
                comp = moved[0].split(":")[0] if moved else "?"
                kind = {"net": "weights", "opt": "optimizer_state", "hp": "hyperparameters", "book": "bookkeeping",
                        "hprange": "hp_ranges", "arch": "architecture", "bandit": "sigma_inv", "attr": "tensor_attr"}.get(comp, comp)
                self.ctx.report(f"{cls_prefix}/interference:{kind}",
                                f"{what} changed {len(moved)} components of bystander {self.name(a)} "
                                f"(first: {moved[:4]})", **self.loc)
        self.snapshot_all()

    def check_storage_disjoint(self, cls_prefix: str = "C01") -> None:
        seen: Dict[Tuple[int, int], Tuple[str, str]] = {}
        reported = set()
        for a in self.everyone():
            for key, comp in A.storage_fp(a).items():
                if key in seen and seen[key][0] != self.name(a):
                    kind = comp.split(":")[0]
                    if kind not in reported:
                        reported.add(kind)
                        self.ctx.report(f"{cls_prefix}/shared_storage:{kind}",
                                        f"{self.name(a)}.{comp} and {seen[key][0]}.{seen[key][1]} are the same object / storage", **self.loc)
                else:
                    seen[key] = (self.name(a), comp)

    # ---- ops ------------------------------------------------------------------------------
    def op_learn(self, ag, seed: int, done: str = "mixed", k: int = 1) -> List[Any]:
        outs = []
        for j in range(k):
            s = kernel.derive(seed, "learn", j)
            batch = A.make_batch(ag, self.cfg, s, done)
            nb = A.make_batch(ag, self.cfg, kernel.derive(s, "n"), done) if self.cfg.get("use_n_step") else None
            seed_all(s)
            outs.append(A.do_learn(ag, self.cfg, batch, nb))
        return outs

    def op_act(self, ag, seed: int):
        obs, _ = A.probe_inputs(self.cfg, seed)
        seed_all(seed)
        algo = self.cfg["algo"]
        if algo in ("DQN", "CQN"):
            return ag.get_action(obs, epsilon=0.2)
        if algo in ("NeuralUCB", "NeuralTS"):
            return ag.get_action(obs)
        return ag.get_action(obs)

    def op_mutate(self, ags: List[Any], probs: Dict[str, float], seed: int, pre: bool = False, mutate_elite: bool = True,
                  new_layer_prob: float = 0.5):
        m = make_mutations(probs, seed, mutate_elite, new_layer_prob)
        seed_all(seed)
        return m, m.mutation(ags, pre_training_mut=pre)

    def save_bytes(self, ag) -> bytes:
        buf = io.BytesIO()
        ag.save_checkpoint(buf)
        return buf.getvalue()


# ==================================================================================================
# generic comparison helpers
# ==================================================================================================
def diff_fp(a: Dict[str, Any], b: Dict[str, Any], skip_prefixes=()) -> List[str]:
    out = []
    for k in sorted(set(a) | set(b)):
        if any(k.startswith(p) for p in skip_prefixes):
            continue
        if a.get(k) != b.get(k):
            out.append(k)
    return out


def target_names(agent) -> List[str]:
    """Names of shared (target) network attributes according to the agent's registry."""
    out = []
    for g in agent.registry.groups:
        if g.shared is not None:
            sh = g.shared if isinstance(g.shared, list) else [g.shared]
            out.extend(sh)
    return out


def outputs_equal(o1: Dict[str, torch.Tensor], o2: Dict[str, torch.Tensor], skip=()) -> List[str]:
    bad = []
    for k in sorted(set(o1) | set(o2)):
        if any(k == s or k.startswith(s + "[") for s in skip):
            continue
        if k not in o1 or k not in o2 or o1[k].shape != o2[k].shape or not torch.equal(o1[k], o2[k]):
            bad.append(k)
    return bad


def faithful_copy_diffs(w: World, parent, child, allow_target_resync: bool = True, check_index: bool = False, info: Optional[Dict[str, Any]] = None) -> Tuple[List[str], List[str]]:
    """-> (value differences, behaviour differences) between parent and child, after the statement's carve-out:
    an algorithm that re-synchronises its target with its online network on every copy may differ in that target."""
    cfg = w.cfg
    tnames = target_names(parent)
    po = A.probe_outputs(parent, cfg, w.probes)
    co = A.probe_outputs(child, cfg, w.probes)
    skip_t: List[str] = []
    if allow_target_resync:
        for g in child.registry.groups:
            if g.shared is None:
                continue
            for sh in (g.shared if isinstance(g.shared, list) else [g.shared]):
                ev = g.eval
                keys_t = [k for k in co if k == sh or k.startswith(sh + "[")]
                keys_e = [k.replace(sh, ev, 1) for k in keys_t]
                differs = any(not torch.equal(po[k], co[k]) for k in keys_t if k in po)
                resynced = all(ke in co and torch.equal(co[kt], co[ke]) for kt, ke in zip(keys_t, keys_e))
                if differs and resynced:
                    skip_t.append(sh)
                    w.ctx.probe("clone_target_resynced")
    if info is not None:
        info["target_resynced"] = list(skip_t)
    fa, fc = A.value_fp(parent, include_index=check_index), A.value_fp(child, include_index=check_index)
    fa.update(A.attr_fp(parent))
    fc.update(A.attr_fp(child))
    skip_p = tuple(f"net:{t}" for t in skip_t) + (("net:target_params",) if skip_t else ())
    vd = diff_fp(fa, fc, skip_prefixes=skip_p + ("book:mut",) * 0)
    bd = outputs_equal(po, co, skip=skip_t)
    return vd, bd


# ==================================================================================================
# C01
# ==================================================================================================
def gen_c01(rng: random.Random, tier: str) -> Dict[str, Any]:
    cfg = A.gen_agent_cfg(rng)
    if cfg["hp"] == "shared":
        cfg["hp"] = "private"  # sharing of the initial config object is attributed to C06
    if cfg["algo"] in ("DQN", "RainbowDQN", "DDPG", "TD3", "CQN") and cfg["obs"] in ("vector", "dict") and rng.random() < 0.2:
        cfg["wrapper"] = "RSNorm"  # observation-normalising agent wrapper: its running statistics are agent state too
    n_ops = rng.randint(4, 14 if tier == "quick" else 30)
    ops: List[Dict[str, Any]] = []
    for _ in range(n_ops):
        x = rng.random()
        s = rng.getrandbits(31)
        i = rng.randrange(8)
        if x < 0.28:
            ops.append({"op": "clone", "i": i, "seed": s, "train": rng.choice(["none", "child", "parent", "both_same_batch"])})
        elif x < 0.55:
            ops.append({"op": "learn", "i": i, "seed": s, "k": rng.choice([1, 1, 2, 3])})
        elif x < 0.75:
            ops.append({"op": "mutate", "i": i, "kind": rng.choice(MUT_KINDS[1:]), "seed": s})
        elif x < 0.85:
            ops.append({"op": "select", "seed": s, "tsize": rng.choice([1, 2, 3]), "elitism": rng.random() < 0.6})
        elif x < 0.92:
            ops.append({"op": "discard", "i": i})
        elif x < 0.97:
            ops.append({"op": "save_restore", "i": i, "path": rng.choice(["load", "load_checkpoint"])})
        else:
            ops.append({"op": "act", "i": i, "seed": s})
    if cfg["algo"] in ("NeuralUCB", "NeuralTS"):
        # acting is what changes a bandit's exploration matrix: make decisions as frequent as learn steps
        for o in ops:
            if o["op"] == "learn" and rng.random() < 0.5:
                o["op"] = "act"
        ops.insert(0, {"op": "act", "i": 0, "seed": rng.getrandbits(31)})
    if cfg.get("wrapper") == "RSNorm":
        # the wrapper's running observation statistics only move when the agent acts in training mode: they must have moved before a clone can lose them
        for o in ops:
            if o["op"] == "learn" and rng.random() < 0.4:
                o["op"] = "act"
                o.pop("k", None)
        ops.insert(0, {"op": "act", "i": 0, "seed": rng.getrandbits(31)})
    if cfg["algo"] in ("DDPG", "TD3", "MADDPG", "MATD3"):
        # exploration-noise state (Ornstein-Uhlenbeck process) is agent state too: it advances when the agent acts in training mode and
        # is reset at episode ends; a clone must own its copy
        for o in ops:
            if o["op"] == "learn" and rng.random() < 0.4:
                o["op"] = rng.choice(["act", "act", "reset_noise"])
                o.pop("k", None)
        ops.insert(0, {"op": "act", "i": 0, "seed": rng.getrandbits(31)})
    return {"engine": "world", "prop": "C01", "cfg": cfg, "cfg_seed": rng.getrandbits(31), "pop": rng.choice([1, 2, 3]), "ops": ops}


def run_c01(ctx: kernel.Ctx, case: Dict[str, Any]) -> None:
    w = World(ctx, case)
    cfg = w.cfg
    w.build_population(case["pop"], shared_hp=False, seed=case["cfg_seed"])
    w.snapshot_all()
    n_clone = n_train_after = 0
    for oi, op in enumerate(case["ops"]):
        ctx.op_index = oi
        ctx.steps += 1
        kind = op["op"]
        if not w.pop:
            break
        if kind == "learn":
            ag = w.pick(op["i"])
            w.op_learn(ag, op["seed"], "mixed", op.get("k", 1))
            ctx.log(w.name(ag), "learn", {"k": op.get("k", 1)})
            w.check_non_interference([ag], f"op {oi}: learn on {w.name(ag)}")
        elif kind == "act":
            ag = w.pick(op["i"])
            w.op_act(ag, op["seed"])
            ctx.log(w.name(ag), "act")
            # acting may legitimately advance the actor's own exploration state; bystanders must not move
            w.check_non_interference([ag], f"op {oi}: get_action on {w.name(ag)}")
        elif kind == "reset_noise":
            ag = w.pick(op["i"])
            ag.reset_action_noise([0])
            ctx.probe("noise_reset")
            ctx.log(w.name(ag), "reset_noise")
            w.check_non_interference([ag], f"op {oi}: reset_action_noise on {w.name(ag)}")
        elif kind == "clone":
            parent = w.pick(op["i"])
            seed_all(op["seed"])
            child = parent.clone(index=max(a.index for a in w.everyone()) + 1)
            n_clone += 1
            ctx.log(w.name(parent), "clone", {"child": w.name(child)})
            finfo: Dict[str, Any] = {}
            vd, bd = faithful_copy_diffs(w, parent, child, info=finfo)
            if vd:
                comp = vd[0].split(":")[0]
                ctx.report(f"C01/unfaithful:{comp}", f"op {oi}: clone of {w.name(parent)} differs in {len(vd)} components: {vd[:5]}", **w.loc)
            if bd:
                ctx.report("C01/unfaithful:behaviour", f"op {oi}: clone of {w.name(parent)} computes different outputs for networks {bd}", **w.loc)
            w.pop.append(child)
            w.check_non_interference([child], f"op {oi}: clone() of {w.name(parent)}")
            w.check_storage_disjoint()
            mode = op.get("train", "none")
            if mode == "both_same_batch" and finfo.get("target_resynced"):
                # the statement's carve-out: the re-synchronised target differs, hence so does the TD target and the update
                ctx.probe("equal_update_skipped_target_resynced")
                mode = "child"
            if mode == "both_same_batch" and not vd and not bd:
                # same batch, same op seed: parent and clone must compute the same update
                w.op_learn(parent, op["seed"], "mixed", 1)
                w.op_learn(child, op["seed"], "mixed", 1)
                n_train_after += 1
                vd2, bd2 = faithful_copy_diffs(w, parent, child)
                if vd2 or bd2:
                    comp = (vd2[0].split(":")[0] if vd2 else "behaviour")
                    ctx.report(f"C01/different_update:{comp}", f"op {oi}: after learn() on the same batch, {w.name(parent)} and its clone differ in "
                                                              f"{vd2[:5]} {bd2[:3]}", **w.loc)
                w.check_non_interference([parent, child], f"op {oi}: learn on {w.name(parent)} and its clone")
            elif mode in ("child", "parent"):
                tgt = child if mode == "child" else parent
                w.op_learn(tgt, op["seed"], "mixed", 2)
                n_train_after += 1
                w.check_non_interference([tgt], f"op {oi}: learn on the {mode} right after clone()")
        elif kind == "mutate":
            ag = w.pick(op["i"])
            slot = w.pop.index(ag)
            m, res = w.op_mutate([ag], {op["kind"]: 1.0}, op["seed"])
            w.pop[slot] = res[0]
            if res[0] is not ag:
                w.names[id(res[0])] = w.name(ag)
                w._refs[id(res[0])] = res[0]
            ctx.log(w.name(ag), "mutate", {"kind": op["kind"], "mut": str(res[0].mut)})
            w.check_non_interference([ag, res[0]], f"op {oi}: {op['kind']} mutation of {w.name(ag)}")
            w.check_storage_disjoint()
        elif kind == "select":
            from agilerl.hpo.tournament import TournamentSelection

            r = np.random.RandomState(op["seed"] % (2**32 - 1))
            for a in w.pop:
                a.fitness.append(float(r.uniform(-1, 1)))
            w.snapshot_all()
            ts = TournamentSelection(op["tsize"], op["elitism"], len(w.pop), 1)
            seed_all(op["seed"])
            elite, new_pop = ts.select(w.pop)
            old = w.pop
            w.ghosts.extend(old)
            w.ghosts.append(elite)
            w.pop = list(new_pop)
            ctx.log("world", "select", {"new": [w.name(a) for a in new_pop]})
            w.check_non_interference(new_pop + [elite], f"op {oi}: tournament selection")
            w.check_storage_disjoint()
            ctx.probe("tournament_round")
        elif kind == "discard":
            if len(w.pop) > 1:
                ag = w.pick(op["i"])
                w.pop.remove(ag)
                nm = w.forget(ag)
                del ag
                gc.collect()
                ctx.log(nm, "discard")
                w.check_non_interference([], f"op {oi}: discarding {nm}")
                ctx.probe("discard")
        elif kind == "save_restore":
            ag = w.pick(op["i"])
            slot = w.pop.index(ag)
            data = w.save_bytes(ag)
            new = restore(w, ag, data, op["path"], case)
            w.ghosts.append(ag)
            w.pop[slot] = new
            ctx.log(w.name(ag), "crash_restore", {"path": op["path"]})
            ctx.fault("crash_restore")
            w.check_non_interference([new], f"op {oi}: save/restore of {w.name(ag)}")
            w.check_storage_disjoint()
        if len(w.ghosts) > 10:
            for g in w.ghosts[:-10]:
                w.forget(g)
            w.ghosts = w.ghosts[-10:]
        ctx.state((cfg["algo"], cfg["obs"], kind, len(w.pop), min(len(w.ghosts), 3)))
    ctx.nontrivial = n_clone > 0 and n_train_after + sum(1 for o in case["ops"] if o["op"] in ("learn", "mutate")) > 0


# ==================================================================================================
# engine interface
# ==================================================================================================
RUNNERS: Dict[str, Any] = {"C01": (gen_c01, run_c01)}


def gen(prop: str, rng: random.Random, tier: str) -> Dict[str, Any]:
    return RUNNERS[prop][0](rng, tier)


def run(prop: str, case: Dict[str, Any]) -> Dict[str, Any]:
    torch.set_num_threads(1)
    ctx = kernel.Ctx(prop, case)
    try:
        RUNNERS[prop][1](ctx, case)
    except kernel.HarnessError:
        raise
    except Exception as e:
        info = kernel.classify_exception(e, os.environ.get("VERIF_REPO", "/repo"))
        if info["where"] != "repo":
            raise
        op = case["ops"][ctx.op_index] if ctx.op_index is not None and ctx.op_index < len(case["ops"]) else {}
        extra = {"wrapper": case["cfg"]["wrapper"], "obs": case["cfg"]["obs"]} if case["cfg"].get("wrapper") else {}
        ctx.report(f"{prop}/exception:{info['type']}@{info['site']}",
                   f"{type(e).__name__}: {str(e)[:300]} (op {ctx.op_index}: {op})", algo=case["cfg"]["algo"], **extra)
    return ctx.result()


def warmup() -> None:
    import agilerl.algorithms  # noqa: F401
    import agilerl.hpo.mutation  # noqa: F401
    import agilerl.hpo.tournament  # noqa: F401


def info(prop: str) -> Dict[str, Any]:
    base = {
        "components_real": ["agilerl.algorithms.* (DQN, RainbowDQN, CQN, DDPG, TD3, PPO, NeuralUCB, NeuralTS, MADDPG, MATD3, IPPO)",
                            "agilerl.algorithms.core.base (clone, copy_attributes, save_checkpoint, load, load_checkpoint)",
                            "agilerl.algorithms.core.wrappers.OptimizerWrapper", "agilerl.algorithms.core.registry",
                            "agilerl.hpo.mutation.Mutations", "agilerl.hpo.tournament.TournamentSelection",
                            "agilerl.modules.*, agilerl.networks.*", "agilerl.components (Transition, ReplayBuffer, MultiAgentReplayBuffer used to shape batches)"],
        "components_stub": ["Mutations.rng (SimRng: name-sorted choices from the op PRNG)", "environment (synthetic batches / observations from the spaces)",
                            "checkpoint file (io.BytesIO through the path argument)"],
        "assumptions": ["CPU, one torch thread: identical seeds give bit-identical updates",
                        "global torch / numpy / python / fastrand generators re-seeded before every op"],
        "state_measure": "(algorithm, observation family, op kind, population size, ghosts) tuples",
    }
    rules = {
        "C01": ("one case = agent configuration (algorithm x observation family x action kind x encoder sharing x bounds) x generated history of "
                "learn / clone(+train one side or both on the same batch) / mutate(kind) / select / discard / save-restore / act over a small population; "
                "non-trivial = at least one clone and at least one later learn or mutate; distinct = distinct event-log digest",
                ["clone_target_resynced", "tournament_round", "discard"]),
    }
    base["rule"], base["expected_probes"] = rules.get(prop, ("", []))
    return base


def simplifiers(prop: str):
    def smaller(case):
        out = []
        if case.get("pop", 1) > 1:
            c = copy.deepcopy(case)
            c["pop"] -= 1
            out.append(c)
        for i, op in enumerate(case.get("ops", [])):
            if op.get("k", 1) > 1:
                c = copy.deepcopy(case)
                c["ops"][i]["k"] = 1
                out.append(c)
            if op.get("train") not in (None, "none"):
                c = copy.deepcopy(case)
                c["ops"][i]["train"] = "none"
                out.append(c)
        if case.get("cfg", {}).get("tight"):
            c = copy.deepcopy(case)
            c["cfg"]["tight"] = False
            out.append(c)
        return out

    return [smaller]


# ==================================================================================================
# C05  tournament selection
# ==================================================================================================
class _NpRandomRecorder:
    """Pass-through proxy for the name `np` inside agilerl.hpo.tournament: records the tournaments drawn."""

    def __init__(self, real_np):
        self._np = real_np
        self.draws: List[List[int]] = []
        outer = self

        class _R:
            def randint(self, *a, **k):
                res = real_np.random.randint(*a, **k)
                outer.draws.append([int(x) for x in real_np.asarray(res).reshape(-1)])
                return res

            def __getattr__(self, name):
                return getattr(real_np.random, name)

        self.random = _R()

    def __getattr__(self, name):
        return getattr(self._np, name)


def gen_c05(rng: random.Random, tier: str) -> Dict[str, Any]:
    cfg = A.gen_agent_cfg(rng, algos=["DQN", "DQN", "CQN", "RainbowDQN", "DDPG", "TD3", "PPO", "NeuralUCB", "NeuralTS", "MADDPG", "MATD3", "IPPO"])
    if cfg["hp"] == "shared":
        cfg["hp"] = "private"
    n = rng.randint(1, 6)
    ops = []
    for _ in range(rng.randint(1, 4 if tier == "quick" else 10)):
        ops.append({"op": "generation", "fit": rng.choice(["random", "random", "all_tied", "two_tied_best", "negative", "unequal_len", "short_hist"]),
                    "tsize": rng.randint(1, n + 2), "elitism": rng.random() < 0.6, "eval_loop": rng.choice([1, 1, 2, 3]),
                    "size_delta": rng.choice([0, 0, 0, 1, -1]), "train": rng.random() < 0.3, "seed": rng.getrandbits(31)})
    return {"engine": "world", "prop": "C05", "cfg": cfg, "cfg_seed": rng.getrandbits(31), "pop": n, "ops": ops}


def run_c05(ctx: kernel.Ctx, case: Dict[str, Any]) -> None:
    import agilerl.hpo.tournament as T

    w = World(ctx, case)
    w.build_population(case["pop"], shared_hp=False, seed=case["cfg_seed"])
    real_np = T.np
    try:
        for oi, op in enumerate(case["ops"]):
            ctx.op_index = oi
            ctx.steps += 1
            r = np.random.RandomState(op["seed"] % (2**32 - 1))
            pop = w.pop
            n = len(pop)
            # --- fitness histories assigned by the scheduler ---
            for j, a in enumerate(pop):
                mode = op["fit"]
                if mode == "all_tied":
                    new = [1.0] * op["eval_loop"]
                elif mode == "two_tied_best":
                    new = [5.0 if j < 2 else float(r.uniform(-1, 1))] * op["eval_loop"]
                elif mode == "negative":
                    new = [float(-r.uniform(1, 100)) for _ in range(op["eval_loop"])]
                elif mode == "unequal_len":
                    new = [float(r.uniform(-1, 1)) for _ in range(1 + (j % 3))]
                elif mode == "short_hist":
                    new = [float(r.uniform(-1, 1))]
                else:
                    new = [float(r.uniform(-10, 10)) for _ in range(op["eval_loop"])]
                a.fitness.extend(new)
            if op.get("train"):
                for a in pop:
                    w.op_learn(a, kernel.derive(op["seed"], "t", a.index), "mixed", 1)
            w.snapshot_all()
            means = [float(np.mean(a.fitness[-op["eval_loop"]:])) for a in pop]
            best = max(means)
            size = max(1, n + op.get("size_delta", 0))
            ts = T.TournamentSelection(op["tsize"], op["elitism"], size, op["eval_loop"])
            rec = _NpRandomRecorder(real_np)
            T.np = rec
            seed_all(op["seed"])
            try:
                elite, new_pop = ts.select(pop)
            finally:
                T.np = real_np
            ctx.log("world", "select", {"means": means, "draws": rec.draws, "idx": [a.index for a in new_pop]})
            if len(set(round(m, 12) for m in means)) < len(means):
                ctx.probe("tied_fitness")
            # --- old population untouched ---
            w.check_non_interference([], f"op {oi}: TournamentSelection.select", cls_prefix="C05")
            # --- size ---
            if len(new_pop) != size:
                ctx.report("C05/size", f"new population has {len(new_pop)} members, configured population_size={size}", **w.loc)

            def online_hash(a) -> Tuple:
                tn = tuple(target_names(a))
                fp = A.value_fp(a, include_index=False)
                return tuple(sorted((k, v) for k, v in fp.items() if k.startswith(("net:", "arch:")) and not k.startswith(tuple(f"net:{t}" for t in tn) + tuple(f"arch:{t}" for t in tn) + ("net:target_params",))))

            old_hashes = [online_hash(p) for p in pop]

            def parents_of(child) -> List[int]:
                out = []
                ch = online_hash(child)
                for j, p in enumerate(pop):
                    if old_hashes[j] != ch:
                        continue  # online weights / architectures differ: cannot be a faithful copy (cheap pre-filter)
                    vd, bd = faithful_copy_diffs(w, p, child)
                    if not vd and not bd:
                        out.append(j)
                return out

            # --- elite ---
            ep = parents_of(elite)
            if not ep:
                ctx.report("C05/elite_not_a_copy", "the returned elite is not a faithful copy of any member of the old population", **w.loc)
            elif not any(means[j] == best for j in ep):
                ctx.report("C05/elite_not_best", f"elite is a copy of member(s) {ep} with mean fitness {[means[j] for j in ep]}, best mean is {best} (means {means})", **w.loc)
            members = list(new_pop)
            if op["elitism"] and members:
                first = members[0]
                fp = parents_of(first)
                if not fp or not any(means[j] == best for j in fp):
                    ctx.report("C05/first_not_elite", f"with elitism the first member must be the elite; it copies {fp} (means {means})", **w.loc)
                elif ep and not set(ep) & set(fp):
                    # "the first member is *that* elite": with a tie for the best mean both must still be copies of the same old member
                    ctx.report("C05/first_not_elite", f"the returned elite copies member(s) {ep}, the first member of the new population copies {fp} - two different agents "
                                                      f"(means {means}, tie for the best mean)", tie=True, **w.loc)
                if fp and first.index not in [pop[j].index for j in fp if means[j] == best]:
                    ctx.report("C05/elite_index", f"elite member carries index {first.index}, the best agents have {[pop[j].index for j in fp]}", **w.loc)
                members = members[1:]
            # --- tournament children ---
            if len(rec.draws) != len(members):
                ctx.report("C05/draws", f"{len(rec.draws)} tournaments drawn for {len(members)} children", **w.loc)
            for k, child in enumerate(members):
                cp = parents_of(child)
                if not cp:
                    ctx.report("C05/child_not_a_copy", f"child {k} (index {child.index}) is not a faithful copy of any old member", **w.loc)
                    continue
                if k < len(rec.draws):
                    drawn = rec.draws[k]
                    if len(drawn) != op["tsize"]:
                        ctx.report("C05/tournament_size", f"tournament {k} drew {len(drawn)} agents, tournament_size={op['tsize']}", **w.loc)
                    top = max(means[j] for j in drawn)
                    ok = [j for j in drawn if means[j] == top]
                    if not set(cp) & set(ok):
                        ctx.report("C05/child_not_tournament_winner",
                                   f"child {k} copies member(s) {cp}; tournament drew {drawn} with means {[means[j] for j in drawn]}, winners {sorted(set(ok))}", **w.loc)
            idx = [a.index for a in new_pop]
            if len(set(idx)) != len(idx):
                ctx.report("C05/duplicate_index", f"indices of the new generation are not distinct: {idx}", **w.loc)
            old_idx = {a.index for a in pop}
            stale = [a.index for a in members if a.index in old_idx]
            if stale:
                ctx.report("C05/index_not_fresh", f"non-elite members carry indices {stale} that already exist in the old population {sorted(old_idx)}", **w.loc)
            w.ghosts = (w.ghosts + pop + [elite])[-8:]
            w.pop = list(new_pop)
            w.snapshot_all()
            ctx.state((w.cfg["algo"], n, op["tsize"], op["elitism"], op["fit"], op["eval_loop"]))
        ctx.nontrivial = case["pop"] >= 2 and len(case["ops"]) >= 1
    finally:
        T.np = real_np


# ==================================================================================================
# C06  RL hyper-parameter mutation
# ==================================================================================================
def _hp_values(agent) -> Dict[str, Any]:
    hc = agent.registry.hp_config
    return {n_: getattr(agent, n_) for n_ in (hc.names() if hc else [])}


def _optimizer_lrs(agent) -> Dict[str, List[float]]:
    out = {}
    for name, wpr in A.optimizers(agent):
        out[name] = [g["lr"] for o in A.torch_optims(wpr) for g in o.param_groups]
    return out


def check_optimizers_live(w: World, agent, cls_prefix: str, when: str) -> None:
    """every optimizer updates exactly the current parameters of the networks it is registered for and uses the
    agent's current learning rate"""
    for cfg_o in agent.registry.optimizers:
        wpr = getattr(agent, cfg_o.name)
        nets = []
        for nname in wpr.network_names:
            obj = getattr(agent, nname)
            nets.extend(obj if isinstance(obj, list) else [obj])
        want = {id(p) for m in nets for p in m.parameters()}
        have = {id(p) for o in A.torch_optims(wpr) for g in o.param_groups for p in g["params"]}
        if want != have:
            ctx_msg = f"{when}: optimizer '{cfg_o.name}' holds {len(have)} parameters of which {len(have - want)} are not live parameters of {wpr.network_names}; {len(want - have)} live parameters are not optimised"
            w.ctx.report(f"{cls_prefix}/optimizer_stale_params", ctx_msg, optimizer=cfg_o.name, **w.loc)
        # which learning rate an optimizer belongs to is decided here from its name (actor_optimizer(s) -> lr_actor, critic_*_optimizer(s) -> lr_critic,
        # anything else -> lr), not taken from what the wrapper inferred for itself
        own = "lr_actor" if "actor" in cfg_o.name and hasattr(agent, "lr_actor") else "lr_critic" if "critic" in cfg_o.name and hasattr(agent, "lr_critic") else wpr.lr_name
        if own != wpr.lr_name:
            w.ctx.report(f"{cls_prefix}/optimizer_stale_lr", f"{when}: optimizer '{cfg_o.name}' is registered under agent.{wpr.lr_name}, it trains {wpr.network_names} whose learning rate "
                                                              f"is agent.{own}: a mutation of either one reaches the wrong optimizer", optimizer=cfg_o.name, **w.loc)
        lr_now = getattr(agent, own)
        lrs = [g["lr"] for o in A.torch_optims(wpr) for g in o.param_groups]
        if any(abs(float(x) - float(lr_now)) > 1e-12 * max(1.0, abs(float(lr_now))) for x in lrs):
            w.ctx.report(f"{cls_prefix}/optimizer_stale_lr", f"{when}: optimizer '{cfg_o.name}' steps with lr {sorted(set(lrs))} but agent.{own} = {lr_now}",
                         optimizer=cfg_o.name, **w.loc)


def gen_c06(rng: random.Random, tier: str) -> Dict[str, Any]:
    cfg = A.gen_agent_cfg(rng)
    cfg["hp"] = rng.choice(["shared", "shared", "private"])
    cfg["hp_spec"] = rng.choice(["default", "wide", "int_stuck", "at_bounds", "random", "random"])
    cfg["same_lr"] = cfg["batch_size"] in (4, 5)  # (derived, not drawn) actor and critic learning rate are one float object
    cfg["learn_step"] = 2  # inside every configured learn_step range
    if cfg["hp_spec"] == "random":
        # "arbitrary min, max, shrink and grow factors": ranges around the current value, factors on either side of 1 (a shrink factor
        # above 1 or a grow factor below 1 is unusual but legal - the result must still be the clipped product)
        def fac(kind):
            x = rng.random()
            if x < 0.12:
                return 1.0
            if x < 0.3:
                return round(rng.uniform(1.01, 2.5), 3) if kind == "shrink" else round(rng.uniform(0.3, 0.99), 3)
            return round(rng.uniform(0.05, 0.99), 3) if kind == "shrink" else round(rng.uniform(1.01, 4.0), 3)
        cfg["hp_rand"] = {"lr": [round(rng.uniform(0.01, 1.0), 4), round(rng.uniform(1.0, 50.0), 3), fac("shrink"), fac("grow")],
                          "lr2": [round(rng.uniform(0.01, 1.0), 4), round(rng.uniform(1.0, 50.0), 3), fac("shrink"), fac("grow")],
                          "bs": [rng.randint(0, 6), rng.randint(0, 24), fac("shrink"), fac("grow")], "bs_float_limits": rng.random() < 0.4}
    ops = []
    if rng.random() < 0.35:
        # the parameter object on its own, including ranges no learning rate would have (negative, straddling zero)
        lo = rng.choice([-5.0, -1.0, -0.1, 0.0, 1e-4, 0.5, 3.0])
        hi = lo + rng.choice([0.0, 1e-3, 0.9, 7.0])
        dt = rng.choice(["float", "float", "int"])
        if dt == "int":
            lo, hi = float(int(lo)), float(int(lo) + rng.randint(0, 9))
        ops.append({"op": "param_walk", "min": lo, "max": hi, "shrink": rng.choice([0.8, 0.5, 0.99, 1.0, 1.4]), "grow": rng.choice([1.2, 3.0, 1.01, 1.0, 0.7]),
                    "dtype": dt, "start": rng.random(), "k": rng.randint(1, 12), "seed": rng.getrandbits(31),
                    # limits written in the other number type (8.0 for an integer parameter, 0 / 1 for a float one) are legal: the result still has the configured type
                    "limit_type": rng.choice(["same", "same", "other"])})
    for _ in range(rng.randint(1, 8 if tier == "quick" else 40)):
        x = rng.random()
        s = rng.getrandbits(31)
        if x < 0.7:
            ops.append({"op": "hp_mutate", "seed": s})
        elif x < 0.8:
            ops.append({"op": "clone", "i": rng.randrange(8), "seed": s})
        elif x < 0.9:
            ops.append({"op": "select", "seed": s})
        else:
            ops.append({"op": "learn", "i": rng.randrange(8), "seed": s})
    return {"engine": "world", "prop": "C06", "cfg": cfg, "cfg_seed": rng.getrandbits(31), "pop": rng.randint(1, 4),
            "distinct_start": rng.random() < 0.5, "ops": ops}


def _c06_hp(cfg):
    from agilerl.algorithms.core.registry import HyperparameterConfig, RLParameter

    spec = cfg.get("hp_spec", "default")
    lr_names = ["lr_actor", "lr_critic"] if cfg["algo"] in ("DDPG", "TD3", "MADDPG", "MATD3") else ["lr"]
    kw = {}
    if spec == "default":
        for n_ in lr_names:
            kw[n_] = RLParameter(min=1e-4, max=1e-2)
        kw["batch_size"] = RLParameter(min=2, max=16, dtype=int)
        kw["learn_step"] = RLParameter(min=1, max=8, dtype=int, grow_factor=1.5, shrink_factor=0.75)
    elif spec == "wide":
        for n_ in lr_names:
            kw[n_] = RLParameter(min=1e-6, max=1.0, shrink_factor=0.5, grow_factor=3.0)
        kw["batch_size"] = RLParameter(min=1, max=64, dtype=int, shrink_factor=0.3, grow_factor=2.5)
    elif spec == "int_stuck":
        kw["batch_size"] = RLParameter(min=2, max=9, dtype=int, shrink_factor=0.9, grow_factor=1.1)  # int(v*1.1) == v for small v
        kw["learn_step"] = RLParameter(min=1, max=3, dtype=int)  # cfg["learn_step"] is set to 2 for this spec
        kw[lr_names[0]] = RLParameter(min=cfg["lr"] * 0.9, max=cfg["lr"] * 1.5)
    elif spec == "random":
        r = cfg["hp_rand"]
        for n_, key, cur in zip(lr_names, ("lr", "lr2"), (cfg["lr"], cfg["lr"] * (1 if cfg.get("same_lr") else 2))):
            a, b, sh, gr = r[key]
            kw[n_] = RLParameter(min=cur * a, max=cur * b, shrink_factor=sh, grow_factor=gr)
        d, u, sh, gr = r["bs"]
        lo_, hi_ = max(1, cfg["batch_size"] - d), cfg["batch_size"] + u
        if r.get("bs_float_limits"):
            lo_, hi_ = float(lo_), float(hi_)
        kw["batch_size"] = RLParameter(min=lo_, max=hi_, dtype=int, shrink_factor=sh, grow_factor=gr)
    else:  # at_bounds: current value equals min or max
        for n_ in lr_names:
            k_ = 2 if (n_ == "lr_critic" and not cfg.get("same_lr")) else 1
            kw[n_] = RLParameter(min=cfg["lr"] * k_, max=cfg["lr"] * k_ * 1.1)
        kw["batch_size"] = RLParameter(min=1, max=cfg["batch_size"], dtype=int)
    return HyperparameterConfig(**kw)


def run_c06(ctx: kernel.Ctx, case: Dict[str, Any]) -> None:
    from agilerl.hpo.tournament import TournamentSelection

    w = World(ctx, case)
    cfg = w.cfg
    shared = _c06_hp(cfg) if cfg["hp"] == "shared" else None
    for i in range(case["pop"]):
        hp = shared if shared is not None else _c06_hp(cfg)
        ag = A.make_agent(cfg, index=i, hp=hp, seed=kernel.derive(case["cfg_seed"], "agent", i))
        w.pop.append(ag)
        w.name(ag)
    if shared is not None and case["pop"] > 1:
        ctx.probe("initial_population_shares_config")
    if case.get("distinct_start"):
        # members are given different current values (inside the range) before the first mutation
        for i, ag in enumerate(w.pop):
            for n_, p in ag.registry.hp_config.items():
                if p.dtype is int:
                    v = int(min(p.max, max(p.min, getattr(ag, n_) + i)))
                    setattr(ag, n_, v)
    w.snapshot_all()
    n_mut = 0
    for oi, op in enumerate(case["ops"]):
        ctx.op_index = oi
        ctx.steps += 1
        if op["op"] == "hp_mutate":
            before = [(_hp_values(a), {n_: (p.min, p.max, p.shrink_factor, p.grow_factor, p.dtype) for n_, p in a.registry.hp_config.items()}) for a in w.pop]
            m = make_mutations({"rl_hp": 1.0}, op["seed"])
            seed_all(op["seed"])
            new_pop = m.mutation(w.pop)
            n_mut += 1
            if len(new_pop) != len(w.pop):
                ctx.report("C06/population_size", f"mutation returned {len(new_pop)} agents for {len(w.pop)}", **w.loc)
            for j, ag in enumerate(new_pop):
                old_vals, ranges = before[j]
                new_vals = _hp_values(ag)
                changed = [n_ for n_ in old_vals if new_vals[n_] != old_vals[n_] or type(new_vals[n_]) is not type(old_vals[n_]) and False]
                mut = ag.mut
                ctx.log(w.name(ag), "hp_mutate", {"mut": str(mut), "old": old_vals, "new": new_vals})
                if mut not in old_vals:
                    ctx.report("C06/mut_label", f"agent {j} reports mut={mut!r}, configured hyperparameters are {sorted(old_vals)}", **w.loc)
                    continue
                others = [n_ for n_ in changed if n_ != mut]
                if others:
                    ctx.report("C06/more_than_one_changed", f"agent {j}: besides {mut}, {others} changed: {old_vals} -> {new_vals}", **w.loc)
                mn, mx, sh, gr, dt = ranges[mut]
                old, new = old_vals[mut], new_vals[mut]
                cands = {dt(min(max(old * f, mn), mx)) for f in (sh, gr)}
                if old in (mn, mx):
                    ctx.probe("value_at_bound")
                if dt is int and any(c == old for c in cands):
                    ctx.probe("int_mutation_sticks")
                if not any(abs(new - c) <= 1e-12 * max(1.0, abs(c)) for c in cands):
                    ctx.report("C06/value_not_own_times_factor",
                               f"agent {j} ({w.name(ag)}): {mut} went {old!r} -> {new!r}; own value x shrink/grow clipped to [{mn}, {mx}] gives {sorted(cands)}",
                               param_kind="int" if dt is int else "float", **w.loc)
                if not (mn <= new <= mx):
                    ctx.report("C06/out_of_range", f"agent {j}: {mut}={new!r} outside [{mn}, {mx}]", **w.loc)
                if type(new) is not dt:
                    ctx.report("C06/dtype", f"agent {j}: {mut} has type {type(new).__name__}, configured {dt.__name__}", **w.loc)
                check_optimizers_live(w, ag, "C06", f"op {oi} agent {j} after {mut} mutation")
            w.pop = list(new_pop)
            # ghosts and clones of earlier generations must not move (the mutated agents themselves are the targets)
            w.check_non_interference(w.pop, f"op {oi}: RL-hyperparameter mutation of the population", cls_prefix="C06")
        elif op["op"] == "param_walk":
            from agilerl.algorithms.core.registry import RLParameter

            dt = int if op["dtype"] == "int" else float
            lo_, hi_ = dt(op["min"]), dt(op["max"])
            if op.get("limit_type") == "other":
                if dt is int:
                    lo_, hi_ = float(lo_), float(hi_)
                elif float(lo_).is_integer() and float(hi_).is_integer():
                    lo_, hi_ = int(lo_), int(hi_)
                ctx.probe("limits_in_other_number_type")
            prm = RLParameter(min=lo_, max=hi_, shrink_factor=op["shrink"], grow_factor=op["grow"], dtype=dt)
            prm.value = dt(op["min"] + op["start"] * (op["max"] - op["min"]))
            if dt is int:
                prm.value = int(min(max(prm.value, prm.min), prm.max))
            seed_all(op["seed"])
            for j in range(op["k"]):
                old = prm.value
                new = prm.mutate()
                n_mut += 1
                ctx.probe("param_walk_step")
                if prm.min < 0:
                    ctx.probe("negative_range")
                cands = {dt(min(max(old * f, prm.min), prm.max)) for f in (prm.shrink_factor, prm.grow_factor)}
                ctx.log("param", "mutate", {"old": old, "new": new})
                if new is not prm.value and new != prm.value:
                    ctx.report("C06/value_not_own_times_factor", f"RLParameter.mutate returned {new!r} but stores {prm.value!r}", param_kind=op["dtype"], algo="RLParameter")
                if not any(abs(new - c) <= 1e-12 * max(1.0, abs(c)) for c in cands):
                    ctx.report("C06/value_not_own_times_factor", f"RLParameter(min={prm.min}, max={prm.max}, shrink={prm.shrink_factor}, grow={prm.grow_factor}, {op['dtype']}): "
                                                                 f"{old!r} -> {new!r}; value x factor clipped to the range gives {sorted(cands)}", param_kind=op["dtype"], algo="RLParameter")
                if not (prm.min <= new <= prm.max):
                    ctx.report("C06/out_of_range", f"RLParameter(min={prm.min}, max={prm.max}, shrink={prm.shrink_factor}, grow={prm.grow_factor}): {old!r} -> {new!r} leaves the range",
                               algo="RLParameter")
                    break
                if type(new) is not dt:
                    ctx.report("C06/dtype", f"RLParameter {op['dtype']}: mutate returned {type(new).__name__}", algo="RLParameter")
        elif op["op"] == "clone":
            p = w.pick(op["i"])
            c = p.clone(index=max(a.index for a in w.everyone()) + 1)
            w.pop.append(c)
            w.snapshot_all()
        elif op["op"] == "select":
            r = np.random.RandomState(op["seed"] % (2**32 - 1))
            for a in w.pop:
                a.fitness.append(float(r.uniform(-1, 1)))
            seed_all(op["seed"])
            elite, new_pop = TournamentSelection(2, True, len(w.pop), 1).select(w.pop)
            w.ghosts = (w.ghosts + w.pop)[-6:]
            w.pop = list(new_pop)
            w.snapshot_all()
            ctx.probe("select_between_mutations")
        elif op["op"] == "learn":
            ag = w.pick(op["i"])
            w.op_learn(ag, op["seed"], "mixed", 1)
            w.check_non_interference([ag], f"op {oi}: learn", cls_prefix="C06")
        ctx.state((cfg["algo"], cfg["hp"], cfg["hp_spec"], op["op"], len(w.pop)))
    ctx.nontrivial = n_mut > 0


# ==================================================================================================
# C02  coherence after mutation
# ==================================================================================================
def _arch_map(agent) -> Dict[str, Any]:
    return {name: A._arch(m) for name, m in A.flat_nets(agent)}


def _flatten(d, prefix=""):
    out = {}
    if isinstance(d, dict):
        for k, v in d.items():
            out.update(_flatten(v, f"{prefix}{k}."))
    else:
        out[prefix[:-1]] = d
    return out


def _arch_delta(before, after) -> Dict[str, Any]:
    fb, fa = _flatten(before), _flatten(after)
    out = {}
    for k in set(fb) | set(fa):
        if fb.get(k) != fa.get(k):
            if any(s in k for s in ("sample_input", "observation_space", "action_space", "num_inputs", "num_outputs", "input_shape", "device", "name", "init_dicts")):
                continue
            out[k] = (fb.get(k), fa.get(k))
    return out


def _num_delta(pair):
    b, a = pair
    if isinstance(b, list) and isinstance(a, list):
        if len(b) != len(a):
            return ("len", len(a) - len(b))
        try:
            return ("el", tuple((y - x) if isinstance(x, (int, float)) and isinstance(y, (int, float)) else (x, y) for x, y in zip(b, a)))
        except Exception:
            return ("val", repr(a))
    if isinstance(b, (int, float)) and isinstance(a, (int, float)):
        return ("num", a - b)
    return ("val", repr(a))


def _bound_blocked(arch_before, path: str) -> bool:
    """Is the value at `path` of this network sitting on one of the min_* / max_* bounds declared next to it?"""
    flat = _flatten(arch_before)
    prefix = path.rsplit(".", 1)[0] + "." if "." in path else ""
    val = flat.get(path)
    bounds = [v for k, v in flat.items() if k.startswith(prefix) and k[len(prefix):].startswith(("min_", "max_")) and isinstance(v, (int, float))]
    vals = val if isinstance(val, list) else [val]
    if any(v in bounds for v in vals if isinstance(v, (int, float))):
        return True
    if isinstance(val, list) and len(val) in bounds:
        return True
    return False


def gen_c02(rng: random.Random, tier: str) -> Dict[str, Any]:
    cfg = A.gen_agent_cfg(rng)
    if cfg["hp"] == "none":
        cfg["hp"] = "private"
    cfg["same_lr"] = cfg["batch_size"] in (4, 5)  # (derived, not drawn: the case stream stays what it was) actor and critic learning rate are one float object
    ops = []
    mode = rng.choice(["single_kind", "mixed", "mixed", "no_elite"])
    first = True
    for _ in range(rng.randint(1, 5 if tier == "quick" else 12)):
        if mode == "single_kind":
            probs = {rng.choice(MUT_KINDS): 1.0}
        else:
            probs = {k: rng.choice([0, 0.2, 0.5, 1.0]) for k in MUT_KINDS}
            if sum(probs.values()) == 0:
                probs["arch"] = 1.0
        if not first and rng.random() < 0.6:
            ops.append({"op": "select", "seed": rng.getrandbits(31)})
        ops.append({"op": "mutate_pop", "probs": probs, "pre": first and rng.random() < 0.5, "mutate_elite": not (mode == "no_elite"),
                    "new_layer_prob": rng.choice([0.0, 0.2, 0.5, 1.0]), "seed": rng.getrandbits(31)})
        ops.append({"op": "use", "seed": rng.getrandbits(31)})
        first = False
    return {"engine": "world", "prop": "C02", "cfg": cfg, "cfg_seed": rng.getrandbits(31), "pop": rng.randint(1, 4), "ops": ops}


def run_c02(ctx: kernel.Ctx, case: Dict[str, Any]) -> None:
    from agilerl.hpo.tournament import TournamentSelection

    w = World(ctx, case)
    cfg = w.cfg
    w.build_population(case["pop"], shared_hp=False, seed=case["cfg_seed"])
    n_mut = 0
    kinds_seen = set()
    for oi, op in enumerate(case["ops"]):
        ctx.op_index = oi
        ctx.steps += 1
        if op["op"] == "select":
            r = np.random.RandomState(op["seed"] % (2**32 - 1))
            for a in w.pop:
                a.fitness.append(float(r.uniform(-1, 1)))
            seed_all(op["seed"])
            elite, new_pop = TournamentSelection(2, True, len(w.pop), 1).select(w.pop)
            w.pop = list(new_pop)
        elif op["op"] == "mutate_pop":
            before_idx = [a.index for a in w.pop]
            before_arch = [_arch_map(a) for a in w.pop]
            before_fp = [A.value_fp(a) for a in w.pop]
            before_hp = [_hp_values(a) for a in w.pop]
            advertised = [set(a.get_policy().mutation_methods if not isinstance(a.get_policy(), list) else a.get_policy()[0].mutation_methods) for a in w.pop]
            m, new_pop = w.op_mutate(w.pop, op["probs"], op["seed"], pre=op.get("pre", False), mutate_elite=op.get("mutate_elite", True),
                                     new_layer_prob=op.get("new_layer_prob", 0.5))
            n_mut += 1
            if [a.index for a in new_pop] != before_idx:
                ctx.report("C02/population_order", f"population indices {before_idx} -> {[a.index for a in new_pop]}", **w.loc)
            w.pop = list(new_pop)
            for j, ag in enumerate(w.pop):
                mut = ag.mut
                hp_names = set(before_hp[j])
                allowed = {"None", None, "param", "act"} | advertised[j] | hp_names
                kinds_seen.add("arch" if mut in advertised[j] else ("hp" if mut in hp_names else str(mut)))
                ctx.log(w.name(ag), "mutated", {"mut": str(mut)})
                if mut not in allowed:
                    ctx.report("C02/mut_label_unknown", f"agent {j} reports mut={mut!r}; not 'None', 'param', 'act', an advertised method or a configured hyperparameter", **w.loc)
                after_arch = _arch_map(ag)
                deltas = {n_: _arch_delta(before_arch[j].get(n_), after_arch.get(n_)) for n_ in after_arch}
                arch_changed = any(deltas.values())
                after_fp = A.value_fp(ag)
                # Mutations.mutation always re-creates the shared / target networks from their eval network and runs the
                # mutation hooks (target re-sync, bandit matrix re-initialisation): that is not a mutation the agent "received"
                tn = target_names(ag)
                skip = tuple(f"net:{t}" for t in tn) + tuple(f"arch:{t}" for t in tn) + ("net:target_params", "bandit:", "book:mut")
                # ... and what a reported mutation is about is weights, architecture and hyperparameters of the trained
                # networks; optimizer moments being reset along the way is not demanded either way by the statement
                moved = [k for k in diff_fp(before_fp[j], after_fp) if not k.startswith(skip) and k.startswith(("net:", "arch:", "hp:"))]
                if mut is None:
                    mut = "None"  # an architecture mutation that resolved to nothing reports None: same claim as 'None'
                    ctx.probe("mut_label_is_NoneType")
                act_changed = any("activation" in k for d in deltas.values() for k in d)
                if mut == "None" and moved:
                    ctx.report("C02/reports_none_but_changed", f"agent {j} reports mut='None' but {len(moved)} components changed (first {moved[:4]}); "
                                                               f"architecture delta {[(n_, list(d)[:3]) for n_, d in deltas.items() if d][:2]}",
                               what="activation" if act_changed else ("architecture" if arch_changed else "other"), **w.loc)
                if mut in ("param", "act") and arch_changed and not (mut == "act" and act_changed and all("activation" in k for d in deltas.values() for k in d)):
                    ctx.report("C02/label_vs_change", f"agent {j} reports mut={mut!r} but the architecture changed: {[(n_, d) for n_, d in deltas.items() if d][:2]}", **w.loc)
                if mut in hp_names:
                    hv = _hp_values(ag)
                    wrong = [n_ for n_ in hp_names if hv[n_] != before_hp[j][n_] and n_ != mut]
                    if wrong or arch_changed:
                        ctx.report("C02/label_vs_change", f"agent {j} reports mut={mut!r} but {wrong} / architecture changed", **w.loc)
                # (b) optimizers live + lr
                check_optimizers_live(w, ag, "C02", f"op {oi} agent {j} after mutation {mut!r}")
                # (c) shared / target networks mirror their eval network
                outs = A.probe_outputs(ag, cfg, w.probes)
                for g in ag.registry.groups:
                    if g.shared is None:
                        continue
                    for sh in (g.shared if isinstance(g.shared, list) else [g.shared]):
                        for k in [k for k in after_arch if k == sh or k.startswith(sh + "[")]:
                            ke = k.replace(sh, g.eval, 1)
                            if after_arch[k] != after_arch.get(ke):
                                ctx.report("C02/target_architecture", f"agent {j} after {mut!r}: {k} has a different architecture than {ke}: "
                                                                      f"{_arch_delta(after_arch.get(ke), after_arch[k])}", **w.loc)
                            elif k not in outs or ke not in outs or not torch.equal(outs[k], outs[ke]):  # "in every agent": also the ones that report 'None' and the protected elite
                                ctx.report("C02/target_weights", f"agent {j} right after mutation {mut!r}: {k} does not compute what {ke} computes", **w.loc)
                # (d) every network trained alongside the policy received the same architecture change
                pol_name = ag.registry.policy
                pol_keys = [k for k in deltas if k == pol_name or k.startswith(pol_name + "[")]
                for g in ag.registry.groups:
                    if g.policy:
                        continue
                    for k in [k for k in deltas if k == g.eval or k.startswith(g.eval + "[")]:
                        kp = pol_keys[min(len(pol_keys) - 1, int(k.split("[")[1][:-1]) if "[" in k else 0)] if pol_keys else None
                        if kp is None:
                            continue
                        dp = {p: _num_delta(v) for p, v in deltas[kp].items()}
                        dq = {p: _num_delta(v) for p, v in deltas[k].items()}
                        if not dp:
                            continue  # the policy itself was stopped by a bound: nothing to follow
                        # a path the policy changed must change identically in the other network, or not at all because the other
                        # network sits on one of its declared bounds there (a *different* change is never a bound effect)
                        bad_paths = [p for p in dp if dq.get(p) != dp[p] and not (p not in dq and _bound_blocked(before_arch[j][k], p))]
                        extra = [p for p in dq if p not in dp]
                        if bad_paths or extra:
                            ctx.report("C02/critic_not_following", f"agent {j} after {mut!r}: policy {kp} changed {deltas[kp]}, but {k} changed {deltas[k]} "
                                                                   f"(paths not followed and not at a bound: {bad_paths}; extra: {extra})", **w.loc)
            ctx.probe("mutation_round")
        elif op["op"] == "use":
            # (e) liveness: the agent can still act and a learn step really moves all trained networks
            for j, ag in enumerate(w.pop):
                w.op_act(ag, kernel.derive(op["seed"], "act", j))
                before = {name: {k: v.clone() for k, v in m.named_parameters()} for name, m in A.flat_nets(ag)}
                k = int(getattr(ag, "policy_freq", 1) or 1)
                w.op_learn(ag, kernel.derive(op["seed"], "learn", j), "mixed", k)
                trained = set()
                for oc in ag.registry.optimizers:
                    wpr = getattr(ag, oc.name)
                    for nname in wpr.network_names:
                        obj = getattr(ag, nname)
                        if isinstance(obj, list):
                            trained.update(f"{nname}[{i}]" for i in range(len(obj)))
                        else:
                            trained.add(nname)
                for name, m in A.flat_nets(ag):
                    if name not in trained or name not in before:
                        continue
                    cur = dict(m.named_parameters())
                    if set(cur) != set(before[name]):
                        continue
                    if cur and all(torch.equal(cur[k_], before[name][k_]) for k_ in cur):
                        ctx.report("C02/learn_does_not_move", f"agent {j} (last mutation {ag.mut!r}): {k} learn step(s) left every parameter of trained network {name} unchanged",
                                   network=name.split("[")[0], **w.loc)
        ctx.state((cfg["algo"], cfg["obs"], op["op"], len(w.pop)))
    ctx.nontrivial = n_mut > 0 and any(o["op"] == "use" for o in case["ops"])
    for k in kinds_seen:
        ctx.probe(f"mut_kind:{k}")


RUNNERS.update({"C05": (gen_c05, run_c05), "C06": (gen_c06, run_c06), "C02": (gen_c02, run_c02)})


# ==================================================================================================
# C07  checkpoint round trip (crash-point sweep)     /     C08  Bellman target + target tracking
# ==================================================================================================
def _subject_ops(rng: random.Random, n: int) -> List[Dict[str, Any]]:
    ops = []
    for _ in range(n):
        x = rng.random()
        s = rng.getrandbits(31)
        if x < 0.5:
            ops.append({"op": "learn", "seed": s, "k": rng.choice([1, 1, 2])})
        elif x < 0.85:
            ops.append({"op": "mutate", "kind": rng.choice(MUT_KINDS[1:]), "seed": s})
        elif x < 0.93:
            ops.append({"op": "clone", "seed": s})
        else:
            ops.append({"op": "act", "seed": s})
    return ops


def apply_subject_op(w: World, ag, op: Dict[str, Any]):
    """History events on one subject agent (returns the - possibly replaced - agent)."""
    k = op["op"]
    if k == "learn":
        w.op_learn(ag, op["seed"], op.get("done", "mixed"), op.get("k", 1))
    elif k == "act":
        w.op_act(ag, op["seed"])
    elif k == "mutate":
        _, res = w.op_mutate([ag], {op["kind"]: 1.0}, op["seed"])
        ag = res[0]
    elif k == "clone":
        seed_all(op["seed"])
        ag = ag.clone()
    elif k == "fitness":
        ag.fitness.append(op["v"])
        ag.scores.append(op["v"] * 2)
        ag.steps[-1] += 7
        ag.steps.append(ag.steps[-1])
    return ag


def build_subject(w: World, case: Dict[str, Any], upto: int):
    cfg = w.cfg
    hp = A.hp_config(cfg) if cfg["hp"] != "none" else None
    ag = A.make_agent(cfg, index=case.get("index", 3), hp=hp, seed=kernel.derive(case["cfg_seed"], "subject"))
    if cfg.get("wrapper") == "RSNorm":
        from agilerl.wrappers.agent import RSNorm

        ag = RSNorm(ag)
    for op in case["ops"][:upto]:
        ag = apply_subject_op(w, ag, op)
    return ag


class SimFile:
    """File-like object with a durable prefix and write faults (simulated disk for torch.save / torch.load)."""

    def __init__(self, fault: Optional[Dict[str, Any]] = None):
        self.buf = io.BytesIO()
        self.fault = fault or {}
        self.nwrites = 0
        self.nbytes = 0
        self.fired = None

    def write(self, b) -> int:
        self.nwrites += 1
        f = self.fault
        b = bytes(b)
        if f.get("kind") == "eio" and self.nwrites == f["at_write"]:
            self.fired = "eio"
            raise OSError(5, "Input/output error (injected)")
        if f.get("kind") == "enospc" and self.nbytes + len(b) > f["after_bytes"]:
            self.fired = "enospc"
            room = max(0, f["after_bytes"] - self.nbytes)
            self.buf.write(b[:room])
            self.nbytes += room
            raise OSError(28, "No space left on device (injected)")
        self.nbytes += len(b)
        return self.buf.write(b)

    def flush(self):
        pass

    def tell(self):
        return self.buf.tell()

    def seek(self, *a):
        return self.buf.seek(*a)

    def durable(self) -> bytes:
        data = self.buf.getvalue()
        f = self.fault
        if f.get("kind") == "torn":
            cut = int(len(data) * f["frac"])
            self.fired = "torn"
            return data[:cut]
        if f.get("kind") == "lost_tail_block":
            blk = f.get("block", 512)
            self.fired = "lost_tail_block"
            return data[: max(0, len(data) - blk)] + bytes(min(blk, len(data)))
        return data


def restore(w: World, ag, data: bytes, path: str, case):
    cfg = w.cfg
    hp = A.hp_config(cfg) if cfg["hp"] != "none" else None
    # "into an existing one": an agent of the same kind that has its own, different, hyperparameters and weights
    other = dict(cfg, lr=cfg["lr"] * 3.0, batch_size=cfg["batch_size"] + 1)
    if "tau" in cfg:
        other["tau"] = 0.37  # ... its own soft-update rate and discount: whatever the learner derived from them at construction must follow the checkpoint
    if "gamma" in cfg:
        other["gamma"] = 0.77
    if hp is not None:
        # ... and its own mutation ranges for the same hyper-parameters: the checkpoint's configuration has to win
        for n_, p_ in hp.items():
            if p_.dtype is int:
                p_.min, p_.max = max(1, int(p_.min) - 1), int(p_.max) + 5
            else:
                p_.min, p_.max = p_.min * 0.5, p_.max * 2.0
            p_.shrink_factor, p_.grow_factor = 0.5, 1.7
    if cfg.get("wrapper") == "RSNorm":
        # the wrapper's load path opens the file twice: a real file (private, removed afterwards) stands in for the disk
        import tempfile

        from agilerl.wrappers.agent import RSNorm

        fd, fname = tempfile.mkstemp(prefix="c07_", suffix=".pt", dir="/dev/shm" if os.path.isdir("/dev/shm") else None)
        try:
            with os.fdopen(fd, "wb") as f:
                f.write(data)
            if path == "load":
                return type(ag.agent).load(fname)
            fresh = RSNorm(A.make_agent(other, index=77, hp=hp, seed=kernel.derive(case["cfg_seed"], "fresh")))
            fresh.load_checkpoint(fname)
            return fresh
        finally:
            os.unlink(fname)
    if path == "load":
        return type(ag).load(io.BytesIO(data))
    fresh = A.make_agent(other, index=77, hp=hp, seed=kernel.derive(case["cfg_seed"], "fresh"))
    fresh.load_checkpoint(io.BytesIO(data))
    return fresh


def equivalent_agent_diffs(w: World, a, b) -> Tuple[List[str], List[str]]:
    """Strict comparison (no target carve-out): used for restored-vs-twin."""
    fa, fb = A.value_fp(a), A.value_fp(b)
    vd = diff_fp(fa, fb)
    pa, pb = A.probe_outputs(a, w.cfg, w.probes), A.probe_outputs(b, w.cfg, w.probes)
    return vd, outputs_equal(pa, pb)


def gen_c07(rng: random.Random, tier: str) -> Dict[str, Any]:
    cfg = A.gen_agent_cfg(rng)
    if cfg["hp"] == "shared":
        cfg["hp"] = "private"
    n = rng.randint(2, 7 if tier == "quick" else 12)
    ops = _subject_ops(rng, n)
    ops.insert(rng.randrange(len(ops) + 1), {"op": "fitness", "v": round(rng.uniform(-5, 5), 3)})
    suffix = [{"op": rng.choice(["learn", "learn", "act"]), "seed": rng.getrandbits(31), "k": 1} for _ in range(rng.randint(1, 3))]
    if tier == "quick":
        cps = sorted(set([len(ops)] + [rng.randint(0, len(ops)) for _ in range(2)]))
    else:
        cps = list(range(len(ops) + 1))
    fault = None
    if rng.random() < 0.25:
        kind = rng.choice(["torn", "eio", "enospc", "lost_tail_block"])
        fault = {"kind": kind, "frac": rng.choice([0.0, 0.3, 0.9, 0.999]), "at_write": rng.randint(1, 12), "after_bytes": rng.choice([0, 100, 5000, 40000]),
                 "block": rng.choice([64, 512, 4096])}
    if cfg["algo"] in ("DQN", "RainbowDQN", "DDPG", "TD3", "CQN") and cfg["obs"] in ("vector", "tuple", "dict") and rng.random() < 0.3:
        cfg["wrapper"] = "RSNorm"
        fault = None
    return {"engine": "world", "prop": "C07", "cfg": cfg, "cfg_seed": rng.getrandbits(31), "index": rng.randint(0, 9), "ops": ops, "suffix": suffix,
            "crash_points": cps, "path": rng.choice(["load", "load_checkpoint"]), "fault": fault}


def run_c07(ctx: kernel.Ctx, case: Dict[str, Any]) -> None:
    w = World(ctx, case)
    n_ops = len(case["ops"])
    cps = [c for c in case["crash_points"] if c <= n_ops] or [n_ops]
    fault = case.get("fault")
    for c in cps:
        ctx.op_index = c
        ctx.steps += 1
        orig = build_subject(w, case, c)
        twin = build_subject(w, case, c)  # never crashes; rebuilt by replaying the same seeded history (no reliance on clone)
        vd0, bd0 = equivalent_agent_diffs(w, orig, twin)
        if vd0 or bd0:
            raise kernel.HarnessError(f"history replay is not deterministic at crash point {c}: {vd0[:3]} {bd0[:3]}")
        f = SimFile(fault)
        try:
            orig.save_checkpoint(f)
            saved = True
        except Exception as e:
            if not f.fired:
                raise
            # an injected disk error may surface as OSError or as torch's own writer error: "may fail"
            saved = False
            ctx.fault(f"save_{f.fired}")
            ctx.log("disk", "save_failed", {"type": type(e).__name__})
        data = f.durable() if saved else f.buf.getvalue()
        if f.fired and saved:
            ctx.fault(f"disk_{f.fired}")
        ctx.log("subject", "crash", {"at": c, "bytes": len(data), "fault": f.fired})
        ctx.fault("crash_restart")
        del orig
        damaged = bool(f.fired)
        try:
            rest = restore(w, twin, data, case["path"], case)
        except Exception as e:
            if damaged:
                ctx.probe("damaged_file_rejected")
                continue  # may fail, never wrong data
            raise
        if damaged and (not saved or data != f.buf.getvalue()):
            ctx.probe("damaged_file_loaded")
        vd, bd = equivalent_agent_diffs(w, twin, rest)
        pre = "C07/io" if damaged else "C07"
        if vd:
            comp = sorted({k.split(":")[0] + (":" + k.split(":")[1] if k.startswith(("net:", "book:", "hp:")) else "") for k in vd})
            ctx.report(f"{pre}/restore_differs:{vd[0].split(':')[0]}", f"crash point {c}, path {case['path']}: restored agent differs from the one that was saved in "
                                                                     f"{len(vd)} components {vd[:6]} (kinds {comp[:6]})", path=case["path"], **w.loc)
        if bd:
            ctx.report(f"{pre}/restore_differs:behaviour", f"crash point {c}, path {case['path']}: restored agent computes different outputs for {bd}",
                       path=case["path"], nets=",".join(sorted({b.split('[')[0] for b in bd})), **w.loc)
        # --- both continue with the same suffix ---
        if not vd and not bd:
            t, r_ = twin, rest
            for op in case["suffix"]:
                t = apply_subject_op(w, t, op)
                r_ = apply_subject_op(w, r_, op)
            vd2, bd2 = equivalent_agent_diffs(w, t, r_)
            if vd2 or bd2:
                ctx.report(f"{pre}/diverges_after_restore", f"crash point {c}: after the same {len(case['suffix'])} events original and restored agent differ in {vd2[:5]} {bd2[:3]}",
                           path=case["path"], **w.loc)
            elif case.get("second_round_trip", True):
                # a resumed run is checkpointed again: the agent that came out of a checkpoint (and has moved on since) must round-trip as well, through either path
                try:
                    data2 = w.save_bytes(r_)
                    for path2 in ("load", "load_checkpoint"):
                        r2 = restore(w, r_, data2, path2, case)
                        vd3, bd3 = equivalent_agent_diffs(w, r_, r2)
                        if vd3 or bd3:
                            ctx.report(f"{pre}/restore_differs:second_round_trip", f"crash point {c}: an agent restored through {case['path']}, continued for {len(case['suffix'])} events and saved "
                                                                                    f"again does not come back through {path2}: {vd3[:5]} {bd3[:3]}", path=path2, **w.loc)
                            break
                    ctx.probe("second_round_trip")
                except Exception as e:
                    info = kernel.classify_exception(e, os.environ.get("VERIF_REPO", "/repo"))
                    if info["where"] != "repo":
                        raise
                    ctx.report(f"{pre}/exception:{info['type']}@{info['site']}", f"second save / restore of a restored agent: {type(e).__name__}: {str(e)[:200]}", **w.loc)
        if w.cfg.get("wrapper"):
            ctx.probe("agent_wrapper_round_trip")
        ctx.state((w.cfg["algo"], w.cfg["obs"], w.cfg.get("wrapper"), case["path"], c, tuple(o["op"] + o.get("kind", "") for o in case["ops"][max(0, c - 2):c])))
    ctx.nontrivial = any(o["op"] in ("learn", "mutate") for o in case["ops"][: max(cps)])


# ---- C08 ---------------------------------------------------------------------------------
def gen_c08(rng: random.Random, tier: str) -> Dict[str, Any]:
    cfg = A.gen_agent_cfg(rng, algos=A.VALUE_BASED)
    cfg["obs"] = rng.choice(["vector", "vector", "discrete", "tuple", "image"]) if cfg["algo"] not in A.MULTI else rng.choice(["vector", "discrete", "image"])
    if cfg["obs"] == "image":
        cfg["tight"] = True  # tight image config has no BatchNorm buffers (see net_config)
        cfg["no_bn"] = True
    if "share_encoders" in cfg:
        cfg["share_encoders"] = False  # targets of tied encoders are not soft-updated by design; the model would not apply
    if cfg["hp"] == "shared":
        cfg["hp"] = "private"
    if cfg["algo"] not in A.MULTI:
        cfg["reward_mode"] = rng.choice(["uniform", "uniform", "large", "integer"])
    ops = []
    for _ in range(rng.randint(1, 4 if tier == "quick" else 8)):
        pre = rng.choice(["none", "none", "clone", "mutate:arch", "mutate:param", "mutate:act", "mutate:rl_hp", "load", "load_checkpoint"])
        ops.append({"op": "streak", "pre": pre, "k": rng.randint(1, 6 if tier == "quick" else 12), "done": rng.choice(["mixed", "mixed", "zeros", "ones"]),
                    "seed": rng.getrandbits(31)})
    return {"engine": "world", "prop": "C08", "cfg": cfg, "cfg_seed": rng.getrandbits(31), "ops": ops}


def _target_pairs(agent) -> List[Tuple[str, str]]:
    """(eval attr, target attr) pairs from the registry."""
    out = []
    for g in agent.registry.groups:
        if g.shared is not None:
            for sh in (g.shared if isinstance(g.shared, list) else [g.shared]):
                out.append((g.eval, sh))
    return out


def _as_list(x):
    return x if isinstance(x, list) else [x]


class TargetModel:
    """Executable reference for 'target = tau * online + (1 - tau) * previous target': one shadow module per target
    network (a clone of the online architecture holding the model's weights), compared behaviourally."""

    def __init__(self, w: World, agent):
        self.w = w
        self.shadows: Dict[str, Any] = {}
        self.valid = True
        self.resync(agent)

    def resync(self, agent) -> None:
        self.shadows = {}
        outs = A.probe_outputs(agent, self.w.cfg, self.w.probes)
        for ev, tg in _target_pairs(agent):
            for i, (e, t) in enumerate(zip(_as_list(getattr(agent, ev)), _as_list(getattr(agent, tg)))):
                key = f"{tg}[{i}]" if isinstance(getattr(agent, tg), list) else tg
                ekey = f"{ev}[{i}]" if isinstance(getattr(agent, ev), list) else ev
                sh = None
                for cand in (t, e):  # the target's own weights if they are exposed, else the online weights if it is in sync
                    c = cand.clone()
                    if self._same(agent, key, c, outs):
                        sh = c
                        break
                if sh is None:
                    self.valid = False
                    self.w.ctx.probe("target_model_unavailable")
                    return
                self.shadows[key] = sh
        self.valid = True

    def _call(self, agent, key: str, module):
        """Output of `module` standing in for network `key` of the agent on the probes."""
        base = key.split("[")[0]
        obj = getattr(agent, base)
        if isinstance(obj, list):
            i = int(key.split("[")[1][:-1])
            old = obj[i]
            obj[i] = module
            try:
                return A.probe_outputs(agent, self.w.cfg, self.w.probes)[key]
            finally:
                obj[i] = old
        old = obj
        object.__setattr__(agent, base, module)
        try:
            return A.probe_outputs(agent, self.w.cfg, self.w.probes)[key]
        finally:
            object.__setattr__(agent, base, old)

    def _same(self, agent, key, module, outs, tol=1e-5) -> bool:
        o = self._call(agent, key, module)
        return o.shape == outs[key].shape and bool(torch.allclose(o, outs[key], atol=tol, rtol=1e-4))

    def step(self, agent, tau: float) -> Dict[str, str]:
        """After one learn step: classify every target as 'updated' (tau rule), 'unchanged' or 'wrong'."""
        res = {}
        outs = A.probe_outputs(agent, self.w.cfg, self.w.probes)
        for ev, tg in _target_pairs(agent):
            for i, e in enumerate(_as_list(getattr(agent, ev))):
                key = f"{tg}[{i}]" if isinstance(getattr(agent, tg), list) else tg
                sh = self.shadows[key]
                prev = {k: v.detach().clone() for k, v in sh.named_parameters()}
                online = dict(e.named_parameters())
                if set(prev) != set(online) or any(prev[k].shape != online[k].shape for k in prev):
                    res[key] = "arch_changed"
                    continue
                tobj = getattr(agent, tg)
                tmod = tobj[i] if isinstance(tobj, list) else tobj
                real = {k: v.detach() for k, v in tmod.named_parameters()} if hasattr(tmod, "named_parameters") else {}
                if real and set(real) == set(prev) and all(real[k].shape == prev[k].shape for k in prev):
                    # the target exposes its weights: decide in weight space (exact up to float32 rounding of the tau rule) and let the
                    # model follow the real weights, so that no classification error can accumulate over a long streak with a small tau
                    upd = {k: tau * online[k].detach() + (1.0 - tau) * prev[k] for k in prev}
                    is_u = all(torch.allclose(real[k], upd[k], rtol=1e-5, atol=1e-7) for k in prev)
                    is_s = all(torch.equal(real[k], prev[k]) for k in prev)
                    res[key] = "both" if (is_u and is_s) else "updated" if is_u else "unchanged" if is_s else "wrong"
                    with torch.no_grad():
                        for k, p in sh.named_parameters():
                            p.copy_(real[k])
                    self.w.ctx.probe("target_compared_in_weight_space")
                    continue
                with torch.no_grad():
                    for k, p in sh.named_parameters():
                        p.copy_(tau * online[k].detach() + (1.0 - tau) * prev[k])
                is_upd = self._same(agent, key, sh, outs)
                moved = any(not torch.equal(p.detach(), prev[k]) for k, p in sh.named_parameters())
                if is_upd and not moved:
                    res[key] = "both"  # online == previous target: the rule and 'unchanged' coincide
                    continue
                if is_upd:
                    # is 'unchanged' equally consistent with what we observe?
                    upd_w = {k: p.detach().clone() for k, p in sh.named_parameters()}
                    with torch.no_grad():
                        for k, p in sh.named_parameters():
                            p.copy_(prev[k])
                    also_unchanged = self._same(agent, key, sh, outs)
                    with torch.no_grad():
                        for k, p in sh.named_parameters():
                            p.copy_(upd_w[k])
                    res[key] = "both" if also_unchanged else "updated"
                    continue
                with torch.no_grad():
                    for k, p in sh.named_parameters():
                        p.copy_(prev[k])
                res[key] = "unchanged" if self._same(agent, key, sh, outs) else "wrong"
        return res


def _expected_loss(agent, cfg, batch, seed) -> Optional[float]:
    """Loss the algorithm defines, recomputed from the networks *before* the step (DQN / double DQN / DDPG critic / TD3 critic)."""
    algo = cfg["algo"]
    with torch.no_grad():
        if algo == "DQN":
            obs = agent.preprocess_observation(batch["obs"])
            nobs = agent.preprocess_observation(batch["next_obs"])
            a = batch["action"].long()
            a = a.unsqueeze(-1) if a.ndim == 1 else a
            r, d = batch["reward"], batch["done"]
            if agent.double:
                idx = agent.actor(nobs).argmax(dim=1, keepdim=True)
                qn = agent.actor_target(nobs).gather(1, idx)
            else:
                qn = agent.actor_target(nobs).max(dim=1, keepdim=True)[0]
            y = r + agent.gamma * (1 - d) * qn
            q = agent.actor(obs).gather(1, a)
            return float(torch.nn.functional.mse_loss(q, y))
        if algo == "CQN":
            obs = agent.preprocess_observation(batch["obs"])
            nobs = agent.preprocess_observation(batch["next_obs"])
            a = batch["action"].long()
            a = a.unsqueeze(-1) if a.ndim == 1 else a
            r, d = batch["reward"], batch["done"]
            if agent.double:
                idx = agent.actor(nobs).argmax(dim=1, keepdim=True)
                qn = agent.actor_target(nobs).gather(1, idx)
            else:
                qn = agent.actor_target(nobs).max(dim=1, keepdim=True)[0]
            y = r + agent.gamma * (1 - d) * qn
            q_all = agent.actor(obs)
            cql = torch.logsumexp(q_all, dim=1).mean() - q_all.mean()
            return float(cql + 0.5 * torch.nn.functional.mse_loss(q_all.gather(1, a), y))
        if algo in ("DDPG", "TD3"):
            obs = agent.preprocess_observation(batch["obs"])
            nobs = agent.preprocess_observation(batch["next_obs"])
            a, r, d = batch["action"], batch["reward"], batch["done"]
            na = agent.actor_target(nobs)
            pn = float(cfg.get("_policy_noise", 0.0))
            if pn > 0:
                # target-policy smoothing: learn() draws the noise first thing after the harness reseeds the generators, so the same draw is reproducible here
                seed_all(seed)
                noise = torch.empty_like(a).normal_(0, pn)
                na = na + agent.multi_dim_clamp(-0.5, 0.5, noise)
            na = agent.multi_dim_clamp(agent.min_action, agent.max_action, na)
            if algo == "DDPG":
                y = r + (1 - d) * agent.gamma * agent.critic_target(nobs, na)
                return float(torch.nn.functional.mse_loss(agent.critic(obs, a), y))
            qn = torch.min(agent.critic_target_1(nobs, na), agent.critic_target_2(nobs, na))
            y = r + (1 - d) * agent.gamma * qn
            return float(torch.nn.functional.mse_loss(agent.critic_1(obs, a), y) + torch.nn.functional.mse_loss(agent.critic_2(obs, a), y))
        if algo == "RainbowDQN":
            # categorical (C51) double-Q target, written as an explicit loop over atoms in float64: independent of the index arithmetic in _dqn_loss
            def elementwise(b, gamma):
                obs = agent.preprocess_observation(b["obs"])
                nobs = agent.preprocess_observation(b["next_obs"])
                B = b["reward"].shape[0]
                r = b["reward"].reshape(B).double()
                d = b["done"].reshape(B).double()
                a = b["action"].reshape(B).long()
                z = agent.support.double()
                n_atoms = z.numel()
                v_min, v_max = float(agent.v_min), float(agent.v_max)
                dz = (v_max - v_min) / (n_atoms - 1)
                a_star = agent.actor(nobs).argmax(1)
                p_next = agent.actor_target(nobs, q=False)[range(B), a_star].double()
                p_next = p_next / p_next.sum(1, keepdim=True)  # a categorical target: the clamped softmax of the network is renormalised
                logp = agent.actor(obs, q=False, log=True)[range(B), a].double()
                m = torch.zeros(B, n_atoms, dtype=torch.float64)
                for i in range(B):
                    for j in range(n_atoms):
                        tz = min(max(float(r[i] + (1.0 - d[i]) * gamma * z[j]), v_min), v_max)
                        pos = (tz - v_min) / dz
                        lo, hi = int(np.floor(pos + 1e-9)), int(np.ceil(pos - 1e-9))
                        lo, hi = max(lo, 0), min(hi, n_atoms - 1)
                        if lo == hi:
                            m[i, lo] += p_next[i, j]
                        else:
                            m[i, lo] += p_next[i, j] * (hi - pos)
                            m[i, hi] += p_next[i, j] * (pos - lo)
                return -(m * logp).sum(1), m.sum(1) - p_next.sum(1)  # (per-sample loss, mass difference to the source distribution)
            return elementwise
        if algo in ("MADDPG", "MATD3"):
            # centralised critics: every agent's critic sees all observations and all actions; next actions come from the target actors
            states, actions, rewards, next_states, dones = batch
            st = agent.preprocess_observation(states)
            ns = agent.preprocess_observation(next_states)
            ids = list(agent.agent_ids)
            na = [agent.actor_targets[i](ns[aid]) for i, aid in enumerate(ids)]
            ss, sns = agent.stack_critic_observations(st), agent.stack_critic_observations(ns)
            sa, sna = torch.cat([actions[aid] for aid in ids], dim=1), torch.cat(na, dim=1)
            out = {}
            for i, aid in enumerate(ids):
                r, d = rewards[aid], dones[aid]
                if algo == "MADDPG":
                    y = r + (1 - d) * agent.gamma * agent.critic_targets[i](sns, sna)
                    out[aid] = float(torch.nn.functional.mse_loss(agent.critics[i](ss, sa), y))
                else:
                    qn = torch.min(agent.critic_targets_1[i](sns, sna), agent.critic_targets_2[i](sns, sna))
                    y = r + (1 - d) * agent.gamma * qn
                    out[aid] = float(torch.nn.functional.mse_loss(agent.critics_1[i](ss, sa), y) + torch.nn.functional.mse_loss(agent.critics_2[i](ss, sa), y))
            return out
    return None


def _rainbow_expected(agent, cfg, batch, nb):
    """(loss, per-sample loss, worst mass error) RainbowDQN.learn should report for this batch, from the networks before the step."""
    el_fn = _expected_loss(agent, cfg, batch, 0)
    with torch.no_grad():
        n_step = nb is not None
        el = None
        worst = 0.0
        if cfg.get("combined_reward") or not n_step:
            el, m = el_fn(batch, float(agent.gamma))
            worst = max(worst, float(m.abs().max()))
        if n_step:
            el_n, m = el_fn(nb, float(agent.gamma) ** int(agent.n_step))
            worst = max(worst, float(m.abs().max()))
            el = el + el_n if cfg.get("combined_reward") else el_n
        if cfg.get("per"):
            wts = batch["weights"].reshape(-1).double()
            loss = float((el * wts).mean())
        else:
            loss = float(el.mean())
    return loss, el, worst


def run_c08(ctx: kernel.Ctx, case: Dict[str, Any]) -> None:
    w = World(ctx, case)
    cfg = w.cfg
    algo = cfg["algo"]
    delayed = algo in ("DDPG", "TD3", "MATD3")

    def fresh():
        hp = A.hp_config(cfg) if cfg["hp"] != "none" else None
        return A.make_agent(cfg, index=0, hp=hp, seed=kernel.derive(case["cfg_seed"], "subject"))

    ag = fresh()
    twin = fresh()  # done-masking twin: identical history, but next observations of done rows are replaced by noise
    if algo == "RainbowDQN" and kernel.derive(case["cfg_seed"], "sharp") % 2:
        # stand-in for a trained network: larger weights give peaked return distributions, so that the network's clamp of small probabilities
        # is active (a freshly initialised net is close to uniform over the atoms and never reaches it within a short streak)
        with torch.no_grad():
            for a_ in (ag, twin):
                for net in (a_.actor, a_.actor_target):
                    for p_ in net.parameters():
                        p_.mul_(4.0)
        ctx.probe("rainbow_sharpened_distributions")
    model = TargetModel(w, ag)
    n_learn = 0
    for oi, op in enumerate(case["ops"]):
        ctx.op_index = oi
        ctx.steps += 1
        pre = op["pre"]
        if pre != "none":
            def do_pre(a):
                if pre == "clone":
                    seed_all(op["seed"])
                    return a.clone()
                if pre.startswith("mutate:"):
                    return w.op_mutate([a], {pre.split(":")[1]: 1.0}, op["seed"])[1][0]
                data = w.save_bytes(a)
                return restore(w, a, data, pre, case)
            ag = do_pre(ag)
            twin = do_pre(twin)
            model.resync(ag)
            ctx.probe(f"streak_after_{pre.split(':')[0]}")
            ctx.log("subject", "pre", {"kind": pre})
        upd = {}
        for j in range(op["k"]):
            s = kernel.derive(op["seed"], "learn", j)
            bs = int(ag.batch_size)
            batch = A.make_batch(ag, cfg, s, op["done"], batch_size=bs)
            batch_t = A.make_batch(twin, cfg, s, op["done"], batch_size=bs, noise_next_where_done=True)
            nb = nb_t = None
            if cfg.get("use_n_step"):
                nb = A.make_batch(ag, cfg, kernel.derive(s, "n"), op["done"], batch_size=bs)
                nb_t = A.make_batch(twin, cfg, kernel.derive(s, "n"), op["done"], batch_size=bs, noise_next_where_done=True)
            want_loss = None
            pn = 0.2 if (algo in ("DDPG", "TD3") and kernel.derive(s, "pn") % 2) else 0.0
            if pn:
                ctx.probe("target_policy_smoothing_noise")
            if algo in ("DQN", "CQN", "DDPG", "TD3", "MADDPG", "MATD3"):
                want_loss = _expected_loss(ag, dict(cfg, _policy_noise=pn), batch, s)
            rb_want = _rainbow_expected(ag, cfg, batch, nb) if algo == "RainbowDQN" else None
            seed_all(s)
            if algo in ("DDPG", "TD3"):
                out = ag.learn(batch, policy_noise=pn)
            else:
                out = A.do_learn(ag, cfg, batch, nb)
            seed_all(s)
            if algo in ("DDPG", "TD3"):
                out_t = twin.learn(batch_t, policy_noise=pn)
            else:
                out_t = A.do_learn(twin, cfg, batch_t, nb_t)
            n_learn += 1
            ctx.log("subject", "learn", {"j": j})
            # (2) loss value
            if rb_want is not None:
                want, want_el, mass_err = rb_want
                ctx.probe("rainbow_loss_recomputed")
                if mass_err > 1e-6:
                    ctx.report("C08/loss_value", f"harness: reference projection lost mass ({mass_err})", **w.loc)
                if abs(float(out[0]) - want) > 2e-4 * max(1.0, abs(want)):
                    ctx.report("C08/loss_value", f"op {oi} step {j}: RainbowDQN.learn(per={bool(cfg.get('per'))}, n_step batch={nb is not None}, combined={bool(cfg.get('combined_reward'))}) "
                                                 f"returned loss {float(out[0])!r}; the categorical cross-entropy against the projected target r + gamma^n (1-done) z "
                                                 f"{'weighted per sample by the importance weights ' if cfg.get('per') else ''}is {want!r}", variant="per" if cfg.get("per") else "uniform", **w.loc)
                if cfg.get("per") and out[2] is not None:
                    got_p = np.asarray(out[2], dtype=np.float64).reshape(-1)
                    want_p = want_el.numpy() + float(ag.prior_eps)
                    if got_p.shape != want_p.shape or np.abs(got_p - want_p).max() > 2e-4 * max(1.0, float(np.abs(want_p).max())):
                        ctx.report("C08/new_priorities", f"op {oi} step {j}: new priorities {got_p.tolist()} are not the per-sample losses + prior_eps {want_p.tolist()}", **w.loc)
            if isinstance(want_loss, dict):
                ctx.probe("ma_critic_loss_recomputed")
                for aid, wl in want_loss.items():
                    got = out[aid][1]
                    if abs(float(got) - wl) > 1e-4 * max(1.0, abs(wl)):
                        ctx.report("C08/loss_value", f"op {oi} step {j}: learn() returned critic loss {float(got)!r} for {aid}; the centralised-critic loss with target "
                                                     f"r + gamma (1-done) Q_target(s', pi_target(s')) evaluated on the same networks and batch is {wl!r}", **w.loc)
                        break
            elif want_loss is not None:
                got = out if algo in ("DQN", "CQN") else out[1]
                if got is not None and abs(float(got) - want_loss) > 1e-4 * max(1.0, abs(want_loss)):
                    ctx.report("C08/loss_value", f"op {oi} step {j}: learn() returned loss {float(got)!r}; the algorithm's loss with target r + gamma (1-done) Q_target(s') "
                                                 f"evaluated on the same networks and batch is {want_loss!r}", **w.loc)
            # (1) target tracking
            if model.valid:
                cls = model.step(ag, float(ag.tau))
                for key, c in cls.items():
                    upd.setdefault(key, []).append(c)
                    if c == "wrong":
                        ctx.report("C08/target_not_tracking", f"op {oi} step {j} (streak after {pre}): target {key} is neither tau*online+(1-tau)*previous (tau={ag.tau}) nor its previous value",
                                   target=key.split("[")[0], **w.loc)
                        model.resync(ag)
                        break
                    if c == "unchanged" and not delayed and float(ag.tau) > 0:
                        ctx.report("C08/target_frozen", f"op {oi} step {j} (streak after {pre}): target {key} did not move after a learn step (tau={ag.tau})",
                                   target=key.split("[")[0], **w.loc)
            # (3) done masking: twin saw noise where done == 1, online weights must agree
            fa, ft = A.value_fp(ag), A.value_fp(twin)
            dd = [k for k in diff_fp(fa, ft) if k.startswith("net:")]
            if dd and algo == "RainbowDQN":
                # float32 rounding of the (renormalised) target mass differs between the twins at the 1e-7 level and Adam amplifies that
                # in the weights; the returned loss is the stable observable here
                l1, l2 = float(out[0]), float(out_t[0])
                if abs(l1 - l2) > 1e-5 * (1.0 + abs(l1)):
                    ctx.report("C08/done_not_masked", f"op {oi} step {j}: replacing next observations of done rows changed the loss from {l1!r} to {l2!r}; done pattern {op['done']}", **w.loc)
                    twin = None
                else:
                    # keep the twins in lock-step for the following steps
                    for (n1, m1), (n2, m2) in zip(A.flat_nets(ag), A.flat_nets(twin)):
                        m2.load_state_dict(m1.state_dict())
                    for (n1, o1), (n2, o2) in zip(A.optimizers(ag), A.optimizers(twin)):
                        o2.load_state_dict(copy.deepcopy(o1.state_dict()))
            elif dd:
                worst = 0.0
                for (n1, m1), (n2, m2) in zip(A.flat_nets(ag), A.flat_nets(twin)):
                    for (k1, p1), (k2, p2) in zip(m1.state_dict().items(), m2.state_dict().items()):
                        if p1.shape == p2.shape and p1.dtype.is_floating_point:
                            worst = max(worst, float((p1 - p2).abs().max()))
                if worst > (1e-4 if algo == "RainbowDQN" else 1e-5):
                    ctx.report("C08/done_not_masked", f"op {oi} step {j}: replacing next observations of done rows changed the update (max weight difference {worst:.3e}, "
                                                      f"{len(dd)} tensors, first {dd[:3]}); done pattern {op['done']}", **w.loc)
                    twin = None
            if twin is None:
                break
        if twin is None:
            break
        if delayed and model.valid:
            pf = int(ag.policy_freq)
            for key, cl in upd.items():
                nupd = sum(1 for c in cl if c == "updated")
                namb = sum(1 for c in cl if c == "both")
                if "wrong" in cl or "arch_changed" in cl:
                    continue
                lo, hi = len(cl) // pf, -(-len(cl) // pf)
                if not (nupd <= hi and nupd + namb >= lo):
                    ctx.report("C08/target_update_cadence", f"op {oi}: over {len(cl)} learn steps with policy_freq={pf} target {key} was updated {nupd} times ({cl})",
                               target=key.split("[")[0], **w.loc)
        ctx.state((algo, cfg["obs"], pre, op["done"], min(op["k"], 3), cfg.get("tau")))
    ctx.nontrivial = n_learn >= 2


RUNNERS.update({"C07": (gen_c07, run_c07), "C08": (gen_c08, run_c08)})


# ==================================================================================================
# C19  neural bandits: exact inverse of the regularised Gram matrix
# ==================================================================================================
def gen_c19(rng: random.Random, tier: str) -> Dict[str, Any]:
    cfg = A.gen_agent_cfg(rng, algo=rng.choice(["NeuralUCB", "NeuralTS"]))
    if cfg["hp"] == "shared":
        cfg["hp"] = "private"
    if cfg["batch_size"] in (4, 5):  # (derived, not drawn: the case stream stays what it was)
        cfg["head_out_act"] = "Tanh" if cfg["batch_size"] == 4 else "Sigmoid"
    ops = []
    for _ in range(rng.randint(3, 14 if tier == "quick" else 40)):
        x = rng.random()
        s = rng.getrandbits(31)
        if x < 0.55:
            ops.append({"op": "decide", "seed": s, "mask": rng.choice([None, None, [1, 0, 1], [0, 0, 1], [1, 1, 0]])})
        elif x < 0.7:
            ops.append({"op": "learn", "seed": s, "k": rng.choice([1, 2])})
        elif x < 0.82:
            ops.append({"op": "mutate", "kind": rng.choice(MUT_KINDS), "seed": s})
        elif x < 0.91:
            ops.append({"op": "clone", "seed": s})
        else:
            ops.append({"op": "save_restore", "path": rng.choice(["load", "load_checkpoint"]), "seed": s})
    # evaluation between decisions, as every generation of train_bandits does (test() leaves the agent in evaluation mode)
    for _ in range(rng.choice([0, 1, 1, 2])):
        ops.insert(rng.randrange(len(ops) + 1), {"op": rng.choice(["evaluate", "evaluate", "evaluate", "train_mode"]), "seed": rng.getrandbits(31)})
    return {"engine": "world", "prop": "C19", "cfg": cfg, "cfg_seed": rng.getrandbits(31), "ops": ops}


def _bandit_features(ag, obs) -> torch.Tensor:
    """Per-arm gradient features of the current output layer, computed independently with autograd.grad."""
    x = ag.preprocess_observation(obs)
    layer = ag.actor.get_output_dense()
    params = [p for p in layer.parameters() if p.requires_grad]
    mu = ag.actor(x)
    rows = []
    for k in range(mu.shape[0]):
        gs = torch.autograd.grad(mu[k].sum(), params, retain_graph=True, allow_unused=True)
        rows.append(torch.cat([(g if g is not None else torch.zeros_like(p)).detach().flatten() for g, p in zip(gs, params)]) / float(np.sqrt(layer.weight.size(0))))
    return torch.stack(rows).double()


def run_c19(ctx: kernel.Ctx, case: Dict[str, Any]) -> None:
    w = World(ctx, case)
    cfg = w.cfg
    hp = A.hp_config(cfg) if cfg["hp"] != "none" else None
    ag = A.make_agent(cfg, index=0, hp=hp, seed=kernel.derive(case["cfg_seed"], "subject"))
    lamb = float(ag.lamb)

    def numel_now(a) -> int:
        return sum(p.numel() for p in a.actor.get_output_dense().parameters() if p.requires_grad)

    def check_shape(a, when: str) -> bool:
        n = numel_now(a)
        ok = True
        if tuple(a.sigma_inv.shape) != (n, n):
            ctx.report("C19/size", f"{when}: sigma_inv has shape {tuple(a.sigma_inv.shape)}, the output layer has {n} parameters", **w.loc)
            ok = False
        if a.exp_layer is not a.actor.get_output_dense():
            ctx.report("C19/exp_layer_detached", f"{when}: exp_layer is not the actor's output layer", **w.loc)
            ok = False
        return ok

    def check_init(a, when: str) -> None:
        n = numel_now(a)
        want = torch.eye(n, dtype=torch.float64) / lamb
        if tuple(a.sigma_inv.shape) == (n, n) and not torch.allclose(a.sigma_inv.double(), want, atol=1e-7):
            d = float(a.sigma_inv[0, 0])
            ctx.report("C19/init_not_inverse", f"{when}: freshly initialised confidence matrix has diagonal {d!r}; inverse of lambda*I with lambda={lamb} is {1.0 / lamb!r}*I", **w.loc)

    check_shape(ag, "after construction")
    check_init(ag, "after construction")
    Z = torch.linalg.inv(ag.sigma_inv.double())  # the model restarts from whatever was initialised (reported above if wrong)
    n_dec = 0
    ghost = None  # (agent the subject was last cloned from, its own reference Gram matrix)
    for oi, op in enumerate(case["ops"]):
        ctx.op_index = oi
        ctx.steps += 1
        k = op["op"]
        if k == "decide" and ghost is not None:
            # the agent this one was cloned from is still alive and keeps deciding (tournament survivors do): its matrix is its own
            g_ag, g_Z = ghost
            g_obs, _ = A.probe_inputs(cfg, kernel.derive(op["seed"], "ghost"))
            g_G = _bandit_features(g_ag, g_obs)
            seed_all(kernel.derive(op["seed"], "ghost"))
            g_a = int(g_ag.get_action(g_obs))
            g_Z = g_Z + torch.outer(g_G[g_a], g_G[g_a])
            g_S = g_ag.sigma_inv.double()
            g_err = float((g_S @ g_Z - torch.eye(g_S.shape[0], dtype=torch.float64)).abs().max()) if g_S.shape == g_Z.shape else float("inf")
            ctx.probe("parent_decides_after_clone")
            if g_err > 5e-3:
                ctx.report("C19/not_inverse", f"op {oi}: the agent the subject was cloned from decided (arm {g_a}); its matrix is off its own Gram matrix by {g_err:.3e} "
                                              f"(decisions of its clone leaked into it, or vice versa)", who="parent_of_clone", **w.loc)
                ghost = None
            else:
                ghost = (g_ag, g_Z)
        if k == "decide":
            obs, _ = A.probe_inputs(cfg, op["seed"])
            mask = np.asarray(op["mask"]) if op.get("mask") else None
            G = _bandit_features(ag, obs)
            seed_all(op["seed"])
            a = int(ag.get_action(obs, action_mask=mask))
            n_dec += 1
            ctx.log("bandit", "decide", {"arm": a})
            if mask is not None and mask[a] == 0:
                ctx.probe("masked_arm_chosen")
            Z = Z + torch.outer(G[a], G[a])
            if not check_shape(ag, f"op {oi} decide"):
                break
            S = ag.sigma_inv.double()
            n = S.shape[0]
            err = float((S @ Z - torch.eye(n, dtype=torch.float64)).abs().max())
            if err > 5e-3:
                ctx.report("C19/not_inverse", f"op {oi} (decision {n_dec}, arm {a}): |sigma_inv @ (lambda I + sum g g^T) - I|_max = {err:.3e}", **w.loc)
                Z = torch.linalg.inv(S)
            asym = float((S - S.T).abs().max()) / max(1e-12, float(S.abs().max()))
            if asym > 1e-4:
                ctx.report("C19/not_symmetric", f"op {oi}: relative asymmetry {asym:.3e}", **w.loc)
            ev = torch.linalg.eigvalsh((S + S.T) / 2)
            if float(ev.min()) <= 0:
                ctx.report("C19/not_positive_definite", f"op {oi}: smallest eigenvalue {float(ev.min()):.3e}", **w.loc)
            bonus = torch.einsum("ki,ij,kj->k", G, S, G)
            if float(bonus.min()) < -1e-9:
                ctx.report("C19/negative_bonus", f"op {oi}: exploration bonus g S g^T = {bonus.tolist()}", **w.loc)
        else:
            before = ag.sigma_inv.clone()
            if k == "learn":
                w.op_learn(ag, op["seed"], "mixed", op.get("k", 1))
            elif k == "mutate":
                ag = w.op_mutate([ag], {op["kind"]: 1.0}, op["seed"])[1][0]
                ctx.probe(f"mutate_{op['kind']}")
            elif k == "clone":
                seed_all(op["seed"])
                ghost = (ag, Z.clone())
                ag = ag.clone()
            elif k == "save_restore":
                data = w.save_bytes(ag)
                ag = restore(w, ag, data, op["path"], case)
                ctx.fault("crash_restore")
            elif k == "evaluate":
                obs0, _ = A.probe_inputs(cfg, op["seed"])
                if isinstance(obs0, np.ndarray):
                    class _Env:  # two-step scripted bandit environment for agent.test()
                        def reset(self_):
                            return obs0

                        def step(self_, action):
                            return obs0, 1.0
                    seed_all(op["seed"])
                    ag.test(_Env(), max_steps=2, loop=1)
                    ag.fitness.pop()
                else:
                    ag.set_training_mode(False)  # test() only takes array contexts; its lasting effect is the evaluation mode
                ctx.probe("decisions_after_evaluation_possible")
            elif k == "train_mode":
                ag.set_training_mode(True)
            ctx.log("bandit", k, {"mut": str(getattr(ag, "mut", None))})
            if not check_shape(ag, f"op {oi} {k}"):
                break
            same = before.shape == ag.sigma_inv.shape and torch.equal(before, ag.sigma_inv)
            if not same:
                # re-initialised: must be the inverse of lambda*I of the right size; the model restarts
                check_init(ag, f"op {oi} {k}{':' + op['kind'] if k == 'mutate' else ''} (matrix re-initialised)")
                Z = torch.linalg.inv(ag.sigma_inv.double())
                ctx.probe("matrix_reinitialised")
        ctx.state((cfg["algo"], cfg["obs"], k, min(n_dec, 5), lamb))
    ctx.nontrivial = n_dec >= 2


RUNNERS.update({"C19": (gen_c19, run_c19)})
