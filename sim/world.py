"""world - population-world simulator (C01 C02 C05 C06 C07 C08 C19).

The "system" is a population of real AgileRL agents (the nodes) plus their checkpoint storage. A seeded
scheduler decides which party is trained, mutated, cloned, selected, saved, crashed or discarded next; after
every event reference models / cross-invariants are evaluated over *all* parties (non-interference), so
aliasing between parent, clones, siblings and ghosts of earlier generations shows up as interference.
"""
from __future__ import annotations

import copy
import gc
import io
import os
import random
from typing import Any, Dict, List, Optional, Tuple

import numpy as np
import torch

from sim import agents as A
from sim import kernel
from sim.rng import SimRng, seed_all

MUT_KINDS = ["none", "arch", "param", "act", "rl_hp"]


def make_mutations(probs: Dict[str, float], seed: int, mutate_elite: bool = True, new_layer_prob: float = 0.5):
    from agilerl.hpo.mutation import Mutations

    m = Mutations(
        no_mutation=probs.get("none", 0), architecture=probs.get("arch", 0), new_layer_prob=new_layer_prob,
        parameters=probs.get("param", 0), activation=probs.get("act", 0), rl_hp=probs.get("rl_hp", 0),
        mutation_sd=0.1, mutate_elite=mutate_elite, rand_seed=None, device="cpu",
    )
    m.rng = SimRng(seed)
    return m


class World:
    """Executes ops against real agents; oracles hook in through `self.oracle`."""

    def __init__(self, ctx: kernel.Ctx, case: Dict[str, Any]):
        self.ctx = ctx
        self.case = case
        self.cfg = case["cfg"]
        self.pop: List[Any] = []       # live population (ordered)
        self.ghosts: List[Any] = []    # old generations / discarded-but-referenced agents, must never move
        self.saves: Dict[int, bytes] = {}
        self.names: Dict[int, str] = {}  # id(agent) -> stable printable name
        self._next_name = 0
        self.fps: Dict[int, Dict[str, Any]] = {}
        self.probes = A.probe_inputs(self.cfg, kernel.derive(case.get("cfg_seed", 0), "probes"))
        self.loc = {"algo": self.cfg["algo"]}

    # ---- bookkeeping ------------------------------------------------------------------------
    def name(self, ag) -> str:
        k = id(ag)
        if k not in self.names:
            self.names[k] = f"a{self._next_name}"
            self._next_name += 1
        return self.names[k]

    def everyone(self) -> List[Any]:
        return self.pop + self.ghosts

    def build_population(self, n: int, shared_hp: bool, seed: int) -> None:
        hp_mode = self.cfg.get("hp", "none")
        shared = A.hp_config(self.cfg) if (hp_mode == "shared" and shared_hp) else None
        for i in range(n):
            if hp_mode == "none":
                hp = None
            elif shared is not None:
                hp = shared
            else:
                hp = A.hp_config(self.cfg)
            ag = A.make_agent(self.cfg, index=i, hp=hp, seed=kernel.derive(seed, "agent", i))
            self.pop.append(ag)
            self.name(ag)

    def pick(self, i: int):
        return self.pop[i % len(self.pop)]

    # ---- snapshots for non-interference ------------------------------------------------------
    def snapshot_all(self) -> None:
        self.fps = {id(a): A.value_fp(a) for a in self.everyone()}

    def check_non_interference(self, touched: List[Any], what: str, cls_prefix: str = "C01") -> None:
        t = {id(a) for a in touched}
        for a in self.everyone():
            if id(a) in t:
                continue
            old = self.fps.get(id(a))
            if old is None:
                continue
            new = A.value_fp(a)
            if new != old:
                moved = sorted(k for k in set(old) | set(new) if old.get(k) != new.get(k))
                comp = moved[0].split(":")[0] if moved else "?"
                kind = {"net": "weights", "opt": "optimizer_state", "hp": "hyperparameters", "book": "bookkeeping",
                        "hprange": "hp_ranges", "arch": "architecture", "bandit": "sigma_inv"}.get(comp, comp)
                self.ctx.report(f"{cls_prefix}/interference:{kind}",
                                f"{what} changed {len(moved)} components of bystander {self.name(a)} "
                                f"(first: {moved[:4]})", **self.loc)
        self.snapshot_all()

    def check_storage_disjoint(self, cls_prefix: str = "C01") -> None:
        seen: Dict[Tuple[int, int], Tuple[str, str]] = {}
        reported = set()
        for a in self.everyone():
            for key, comp in A.storage_fp(a).items():
                if key in seen and seen[key][0] != self.name(a):
                    kind = comp.split(":")[0]
                    if kind not in reported:
                        reported.add(kind)
                        self.ctx.report(f"{cls_prefix}/shared_storage:{kind}",
                                        f"{self.name(a)}.{comp} and {seen[key][0]}.{seen[key][1]} are the same object / storage", **self.loc)
                else:
                    seen[key] = (self.name(a), comp)

    # ---- ops ------------------------------------------------------------------------------
    def op_learn(self, ag, seed: int, done: str = "mixed", k: int = 1) -> List[Any]:
        outs = []
        for j in range(k):
            s = kernel.derive(seed, "learn", j)
            batch = A.make_batch(ag, self.cfg, s, done)
            nb = A.make_batch(ag, self.cfg, kernel.derive(s, "n"), done) if self.cfg.get("use_n_step") else None
            seed_all(s)
            outs.append(A.do_learn(ag, self.cfg, batch, nb))
        return outs

    def op_act(self, ag, seed: int):
        obs, _ = A.probe_inputs(self.cfg, seed)
        seed_all(seed)
        algo = self.cfg["algo"]
        if algo in ("DQN", "CQN"):
            return ag.get_action(obs, epsilon=0.2)
        if algo in ("NeuralUCB", "NeuralTS"):
            return ag.get_action(obs)
        return ag.get_action(obs)

    def op_mutate(self, ags: List[Any], probs: Dict[str, float], seed: int, pre: bool = False, mutate_elite: bool = True,
                  new_layer_prob: float = 0.5):
        m = make_mutations(probs, seed, mutate_elite, new_layer_prob)
        seed_all(seed)
        return m, m.mutation(ags, pre_training_mut=pre)

    def save_bytes(self, ag) -> bytes:
        buf = io.BytesIO()
        ag.save_checkpoint(buf)
        return buf.getvalue()


# ==================================================================================================
# generic comparison helpers
# ==================================================================================================
def diff_fp(a: Dict[str, Any], b: Dict[str, Any], skip_prefixes=()) -> List[str]:
    out = []
    for k in sorted(set(a) | set(b)):
        if any(k.startswith(p) for p in skip_prefixes):
            continue
        if a.get(k) != b.get(k):
            out.append(k)
    return out


def target_names(agent) -> List[str]:
    """Names of shared (target) network attributes according to the agent's registry."""
    out = []
    for g in agent.registry.groups:
        if g.shared is not None:
            sh = g.shared if isinstance(g.shared, list) else [g.shared]
            out.extend(sh)
    return out


def outputs_equal(o1: Dict[str, torch.Tensor], o2: Dict[str, torch.Tensor], skip=()) -> List[str]:
    bad = []
    for k in sorted(set(o1) | set(o2)):
        if any(k == s or k.startswith(s + "[") for s in skip):
            continue
        if k not in o1 or k not in o2 or o1[k].shape != o2[k].shape or not torch.equal(o1[k], o2[k]):
            bad.append(k)
    return bad


def faithful_copy_diffs(w: World, parent, child, allow_target_resync: bool = True, check_index: bool = False, info: Optional[Dict[str, Any]] = None) -> Tuple[List[str], List[str]]:
    """-> (value differences, behaviour differences) between parent and child, after the statement's carve-out:
    an algorithm that re-synchronises its target with its online network on every copy may differ in that target."""
    cfg = w.cfg
    tnames = target_names(parent)
    po = A.probe_outputs(parent, cfg, w.probes)
    co = A.probe_outputs(child, cfg, w.probes)
    skip_t: List[str] = []
    if allow_target_resync:
        for g in child.registry.groups:
            if g.shared is None:
                continue
            for sh in (g.shared if isinstance(g.shared, list) else [g.shared]):
                ev = g.eval
                keys_t = [k for k in co if k == sh or k.startswith(sh + "[")]
                keys_e = [k.replace(sh, ev, 1) for k in keys_t]
                differs = any(not torch.equal(po[k], co[k]) for k in keys_t if k in po)
                resynced = all(ke in co and torch.equal(co[kt], co[ke]) for kt, ke in zip(keys_t, keys_e))
                if differs and resynced:
                    skip_t.append(sh)
                    w.ctx.probe("clone_target_resynced")
    if info is not None:
        info["target_resynced"] = list(skip_t)
    fa, fc = A.value_fp(parent, include_index=check_index), A.value_fp(child, include_index=check_index)
    skip_p = tuple(f"net:{t}" for t in skip_t) + (("net:target_params",) if skip_t else ())
    vd = diff_fp(fa, fc, skip_prefixes=skip_p + ("book:mut",) * 0)
    bd = outputs_equal(po, co, skip=skip_t)
    return vd, bd


# ==================================================================================================
# C01
# ==================================================================================================
def gen_c01(rng: random.Random, tier: str) -> Dict[str, Any]:
    cfg = A.gen_agent_cfg(rng)
    if cfg["hp"] == "shared":
        cfg["hp"] = "private"  # sharing of the initial config object is attributed to C06
    n_ops = rng.randint(4, 14 if tier == "quick" else 30)
    ops: List[Dict[str, Any]] = []
    for _ in range(n_ops):
        x = rng.random()
        s = rng.getrandbits(31)
        i = rng.randrange(8)
        if x < 0.28:
            ops.append({"op": "clone", "i": i, "seed": s, "train": rng.choice(["none", "child", "parent", "both_same_batch"])})
        elif x < 0.55:
            ops.append({"op": "learn", "i": i, "seed": s, "k": rng.choice([1, 1, 2, 3])})
        elif x < 0.75:
            ops.append({"op": "mutate", "i": i, "kind": rng.choice(MUT_KINDS[1:]), "seed": s})
        elif x < 0.85:
            ops.append({"op": "select", "seed": s, "tsize": rng.choice([1, 2, 3]), "elitism": rng.random() < 0.6})
        elif x < 0.92:
            ops.append({"op": "discard", "i": i})
        elif x < 0.97:
            ops.append({"op": "save_restore", "i": i, "path": rng.choice(["load", "load_checkpoint"])})
        else:
            ops.append({"op": "act", "i": i, "seed": s})
    return {"engine": "world", "prop": "C01", "cfg": cfg, "cfg_seed": rng.getrandbits(31), "pop": rng.choice([1, 2, 3]), "ops": ops}


def run_c01(ctx: kernel.Ctx, case: Dict[str, Any]) -> None:
    w = World(ctx, case)
    cfg = w.cfg
    w.build_population(case["pop"], shared_hp=False, seed=case["cfg_seed"])
    w.snapshot_all()
    n_clone = n_train_after = 0
    for oi, op in enumerate(case["ops"]):
        ctx.op_index = oi
        ctx.steps += 1
        kind = op["op"]
        if not w.pop:
            break
        if kind == "learn":
            ag = w.pick(op["i"])
            w.op_learn(ag, op["seed"], "mixed", op.get("k", 1))
            ctx.log(w.name(ag), "learn", {"k": op.get("k", 1)})
            w.check_non_interference([ag], f"op {oi}: learn on {w.name(ag)}")
        elif kind == "act":
            ag = w.pick(op["i"])
            w.op_act(ag, op["seed"])
            ctx.log(w.name(ag), "act")
            # acting may legitimately advance the actor's own exploration state; bystanders must not move
            w.check_non_interference([ag], f"op {oi}: get_action on {w.name(ag)}")
        elif kind == "clone":
            parent = w.pick(op["i"])
            seed_all(op["seed"])
            child = parent.clone(index=max(a.index for a in w.everyone()) + 1)
            n_clone += 1
            ctx.log(w.name(parent), "clone", {"child": w.name(child)})
            finfo: Dict[str, Any] = {}
            vd, bd = faithful_copy_diffs(w, parent, child, info=finfo)
            if vd:
                comp = vd[0].split(":")[0]
                ctx.report(f"C01/unfaithful:{comp}", f"op {oi}: clone of {w.name(parent)} differs in {len(vd)} components: {vd[:5]}", **w.loc)
            if bd:
                ctx.report("C01/unfaithful:behaviour", f"op {oi}: clone of {w.name(parent)} computes different outputs for networks {bd}", **w.loc)
            w.pop.append(child)
            w.check_non_interference([child], f"op {oi}: clone() of {w.name(parent)}")
            w.check_storage_disjoint()
            mode = op.get("train", "none")
            if mode == "both_same_batch" and finfo.get("target_resynced"):
                # the statement's carve-out: the re-synchronised target differs, hence so does the TD target and the update
                ctx.probe("equal_update_skipped_target_resynced")
                mode = "child"
            if mode == "both_same_batch" and not vd and not bd:
                # same batch, same op seed: parent and clone must compute the same update
                w.op_learn(parent, op["seed"], "mixed", 1)
                w.op_learn(child, op["seed"], "mixed", 1)
                n_train_after += 1
                vd2, bd2 = faithful_copy_diffs(w, parent, child)
                if vd2 or bd2:
                    comp = (vd2[0].split(":")[0] if vd2 else "behaviour")
                    ctx.report(f"C01/different_update:{comp}", f"op {oi}: after learn() on the same batch, {w.name(parent)} and its clone differ in "
                                                              f"{vd2[:5]} {bd2[:3]}", **w.loc)
                w.check_non_interference([parent, child], f"op {oi}: learn on {w.name(parent)} and its clone")
            elif mode in ("child", "parent"):
                tgt = child if mode == "child" else parent
                w.op_learn(tgt, op["seed"], "mixed", 2)
                n_train_after += 1
                w.check_non_interference([tgt], f"op {oi}: learn on the {mode} right after clone()")
        elif kind == "mutate":
            ag = w.pick(op["i"])
            slot = w.pop.index(ag)
            m, res = w.op_mutate([ag], {op["kind"]: 1.0}, op["seed"])
            w.pop[slot] = res[0]
            if res[0] is not ag:
                w.names[id(res[0])] = w.name(ag)
            ctx.log(w.name(ag), "mutate", {"kind": op["kind"], "mut": str(res[0].mut)})
            w.check_non_interference([ag, res[0]], f"op {oi}: {op['kind']} mutation of {w.name(ag)}")
            w.check_storage_disjoint()
        elif kind == "select":
            from agilerl.hpo.tournament import TournamentSelection

            r = np.random.RandomState(op["seed"] % (2**32 - 1))
            for a in w.pop:
                a.fitness.append(float(r.uniform(-1, 1)))
            w.snapshot_all()
            ts = TournamentSelection(op["tsize"], op["elitism"], len(w.pop), 1)
            seed_all(op["seed"])
            elite, new_pop = ts.select(w.pop)
            old = w.pop
            w.ghosts.extend(old)
            w.ghosts.append(elite)
            w.pop = list(new_pop)
            ctx.log("world", "select", {"new": [w.name(a) for a in new_pop]})
            w.check_non_interference(new_pop + [elite], f"op {oi}: tournament selection")
            w.check_storage_disjoint()
            ctx.probe("tournament_round")
        elif kind == "discard":
            if len(w.pop) > 1:
                ag = w.pick(op["i"])
                w.pop.remove(ag)
                w.fps.pop(id(ag), None)
                nm = w.name(ag)
                del ag
                gc.collect()
                ctx.log(nm, "discard")
                w.check_non_interference([], f"op {oi}: discarding {nm}")
                ctx.probe("discard")
        elif kind == "save_restore":
            ag = w.pick(op["i"])
            slot = w.pop.index(ag)
            data = w.save_bytes(ag)
            if op["path"] == "load":
                new = type(ag).load(io.BytesIO(data))
            else:
                new = A.make_agent(cfg, index=ag.index, hp=(A.hp_config(cfg) if cfg["hp"] != "none" else None), seed=op.get("seed", 1))
                new.load_checkpoint(io.BytesIO(data))
            w.ghosts.append(ag)
            w.pop[slot] = new
            ctx.log(w.name(ag), "crash_restore", {"path": op["path"]})
            ctx.fault("crash_restore")
            w.check_non_interference([new], f"op {oi}: save/restore of {w.name(ag)}")
            w.check_storage_disjoint()
        if len(w.ghosts) > 10:
            for g in w.ghosts[:-10]:
                w.fps.pop(id(g), None)
            w.ghosts = w.ghosts[-10:]
        ctx.state((cfg["algo"], cfg["obs"], kind, len(w.pop), min(len(w.ghosts), 3)))
    ctx.nontrivial = n_clone > 0 and n_train_after + sum(1 for o in case["ops"] if o["op"] in ("learn", "mutate")) > 0


# ==================================================================================================
# engine interface
# ==================================================================================================
RUNNERS: Dict[str, Any] = {"C01": (gen_c01, run_c01)}


def gen(prop: str, rng: random.Random, tier: str) -> Dict[str, Any]:
    return RUNNERS[prop][0](rng, tier)


def run(prop: str, case: Dict[str, Any]) -> Dict[str, Any]:
    torch.set_num_threads(1)
    ctx = kernel.Ctx(prop, case)
    try:
        RUNNERS[prop][1](ctx, case)
    except kernel.HarnessError:
        raise
    except Exception as e:
        info = kernel.classify_exception(e, os.environ.get("VERIF_REPO", "/repo"))
        if info["where"] != "repo":
            raise
        op = case["ops"][ctx.op_index] if ctx.op_index is not None and ctx.op_index < len(case["ops"]) else {}
        ctx.report(f"{prop}/exception:{info['type']}@{info['site']}",
                   f"{type(e).__name__}: {str(e)[:300]} (op {ctx.op_index}: {op})", algo=case["cfg"]["algo"])
    return ctx.result()


def warmup() -> None:
    import agilerl.algorithms  # noqa: F401
    import agilerl.hpo.mutation  # noqa: F401
    import agilerl.hpo.tournament  # noqa: F401


def info(prop: str) -> Dict[str, Any]:
    base = {
        "components_real": ["agilerl.algorithms.* (DQN, RainbowDQN, CQN, DDPG, TD3, PPO, NeuralUCB, NeuralTS, MADDPG, MATD3, IPPO)",
                            "agilerl.algorithms.core.base (clone, copy_attributes, save_checkpoint, load, load_checkpoint)",
                            "agilerl.algorithms.core.wrappers.OptimizerWrapper", "agilerl.algorithms.core.registry",
                            "agilerl.hpo.mutation.Mutations", "agilerl.hpo.tournament.TournamentSelection",
                            "agilerl.modules.*, agilerl.networks.*", "agilerl.components (Transition, ReplayBuffer, MultiAgentReplayBuffer used to shape batches)"],
        "components_stub": ["Mutations.rng (SimRng: name-sorted choices from the op PRNG)", "environment (synthetic batches / observations from the spaces)",
                            "checkpoint file (io.BytesIO through the path argument)"],
        "assumptions": ["CPU, one torch thread: identical seeds give bit-identical updates",
                        "global torch / numpy / python / fastrand generators re-seeded before every op"],
        "state_measure": "(algorithm, observation family, op kind, population size, ghosts) tuples",
    }
    rules = {
        "C01": ("one case = agent configuration (algorithm x observation family x action kind x encoder sharing x bounds) x generated history of "
                "learn / clone(+train one side or both on the same batch) / mutate(kind) / select / discard / save-restore / act over a small population; "
                "non-trivial = at least one clone and at least one later learn or mutate; distinct = distinct event-log digest",
                ["clone_target_resynced", "tournament_round", "discard"]),
    }
    base["rule"], base["expected_probes"] = rules.get(prop, ("", []))
    return base


def simplifiers(prop: str):
    def smaller(case):
        out = []
        if case.get("pop", 1) > 1:
            c = copy.deepcopy(case)
            c["pop"] -= 1
            out.append(c)
        for i, op in enumerate(case.get("ops", [])):
            if op.get("k", 1) > 1:
                c = copy.deepcopy(case)
                c["ops"][i]["k"] = 1
                out.append(c)
            if op.get("train") not in (None, "none"):
                c = copy.deepcopy(case)
                c["ops"][i]["train"] = "none"
                out.append(c)
        if case.get("cfg", {}).get("tight"):
            c = copy.deepcopy(case)
            c["cfg"]["tight"] = False
            out.append(c)
        return out

    return [smaller]
