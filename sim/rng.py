"""Randomness seams: seed_all() for the global generators AgileRL uses, SimRng for Mutations.rng."""
from __future__ import annotations

import random
from typing import Any, Optional, Sequence

import numpy as np


def seed_all(seed: int) -> None:
    """Re-seed every global generator the library draws from. Called before every op with the op's own seed,
    so removing an op while shrinking does not shift the random stream of later ops."""
    import torch

    s = int(seed) % (2**31 - 1)
    random.seed(s)
    np.random.seed(s)
    torch.manual_seed(s)
    try:
        import fastrand

        fastrand.pcg32_seed(s)
    except Exception:  # pragma: no cover
        pass


def _name(o: Any) -> str:
    if isinstance(o, (str, int, float, np.integer, np.floating)):
        return str(o)
    return getattr(o, "__name__", None) or repr(o)


class SimRng:
    """Drop-in replacement for the numpy Generator held in `Mutations.rng`.

    `choice` sorts the options by printable name before drawing, so the decision does not depend on the
    iteration order of a set (EvolvableModule builds `mutation_methods` through `list(set(...))`)."""

    def __init__(self, seed: int):
        self._r = np.random.RandomState(int(seed) % (2**32 - 1))
        self.trace: list = []

    def reseed(self, seed: int) -> None:
        self._r = np.random.RandomState(int(seed) % (2**32 - 1))

    def choice(self, a: Any, size: Optional[Any] = None, replace: bool = True, p: Optional[Sequence[float]] = None):
        if isinstance(a, (int, np.integer)):
            opts = list(range(int(a)))
        else:
            opts = list(a)
        n = len(opts)
        if n == 0:
            raise ValueError("a cannot be empty")
        order = sorted(range(n), key=lambda i: (_name(opts[i]), i))
        pp = None
        if p is not None:
            pp = np.asarray([p[i] for i in order], dtype=float)
            pp = pp / pp.sum()
        idx = self._r.choice(n, size=size, replace=replace, p=pp)
        if size is None:
            out = opts[order[int(idx)]]
            self.trace.append(_name(out))
            return out
        flat = np.asarray(idx).reshape(-1)
        res = [opts[order[int(i)]] for i in flat]
        self.trace.append([_name(o) for o in res])
        try:
            return np.asarray(res, dtype=object if not all(isinstance(o, (int, float, str, np.generic)) for o in res) else None).reshape(np.shape(idx))
        except Exception:
            return res

    def integers(self, low, high=None, size=None, dtype=np.int64, endpoint=False):
        if high is None:
            low, high = 0, low
        if endpoint:
            high = high + 1
        return self._r.randint(low, high, size=size, dtype=dtype)

    def uniform(self, low=0.0, high=1.0, size=None):
        return self._r.uniform(low, high, size)

    def random(self, size=None):
        return self._r.random_sample(size)

    def normal(self, loc=0.0, scale=1.0, size=None):
        return self._r.normal(loc, scale, size)

    def shuffle(self, x):
        self._r.shuffle(x)

    def permutation(self, x):
        return self._r.permutation(x)
