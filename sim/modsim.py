"""modsim - module / network chain simulator (C03, C04).

One evolvable building block or network per run is walked through a seeded chain of the exact step the library's
own mutation path performs - clone, draw one of the methods *the clone* advertises (sorted by name), call it -
interleaved with weight perturbation, activation changes, companion networks that follow the returned mutation
dict, and the 'restart from the constructor description' fault (throw the object away, rebuild it from
init_dict + state_dict, strictly)."""
from __future__ import annotations

import copy
import os
import random
from typing import Any, Dict, List, Optional, Tuple

import numpy as np
import torch
from gymnasium import spaces

from sim import kernel
from sim.agents import _arch
from sim.rng import seed_all

BLOCKS = ["MLP", "CNN2d", "CNN3d", "LSTM", "SimBa", "ResNet", "MultiInput"]
NETS = ["QNetwork", "RainbowQNetwork", "ContinuousQNetwork", "ValueNetwork", "DeterministicActor", "StochasticActor"]
NET_OBS = ["vector", "image", "dict", "tuple", "discrete", "sequence"]


# ------------------------------------------------------------------------------------------------
# construction
# ------------------------------------------------------------------------------------------------
def _obs_space(kind: str, hw=(12, 12)) -> spaces.Space:
    h, w_ = int(hw[0]), int(hw[1])
    if kind == "vector":
        return spaces.Box(-1.0, 1.0, (5,), np.float32)
    if kind == "image":
        return spaces.Box(0.0, 1.0, (3, h, w_), np.float32)
    if kind == "dict":
        return spaces.Dict({"a": spaces.Box(-1.0, 1.0, (3,), np.float32), "b": spaces.Box(0.0, 1.0, (3, h, w_), np.float32)})
    if kind == "tuple":
        return spaces.Tuple((spaces.Box(-1.0, 1.0, (3,), np.float32), spaces.Box(0.0, 1.0, (1, 10, 10), np.float32)))
    if kind == "discrete":
        return spaces.Discrete(6)
    if kind == "sequence":
        return spaces.Box(-1.0, 1.0, (4, 3), np.float32)
    raise ValueError(kind)


def _sample_input(space: spaces.Space, r: np.random.RandomState, n: int):
    if isinstance(space, spaces.Box):
        return torch.as_tensor(r.uniform(space.low, space.high, size=(n,) + space.shape).astype(np.float32))
    if isinstance(space, spaces.Discrete):
        return torch.nn.functional.one_hot(torch.as_tensor(r.randint(0, space.n, size=n)), space.n).float()
    if isinstance(space, spaces.Dict):
        return {k: _sample_input(s, r, n) for k, s in space.spaces.items()}
    if isinstance(space, spaces.Tuple):
        return tuple(_sample_input(s, r, n) for s in space.spaces)
    raise ValueError(space)


def build(case: Dict[str, Any]):
    """-> (module, input sampler(r, n) -> args tuple, declared output checker)"""
    from agilerl.modules import EvolvableCNN, EvolvableLSTM, EvolvableMLP, EvolvableMultiInput, EvolvableResNet, EvolvableSimBa
    from agilerl.networks.actors import DeterministicActor, StochasticActor
    from agilerl.networks.q_networks import ContinuousQNetwork, QNetwork, RainbowQNetwork
    from agilerl.networks.value_networks import ValueNetwork

    kind, tight = case["kind"], case["tight"]
    seed_all(case["seed"])
    nout = 3
    if kind == "MLP":
        kw = dict(min_hidden_layers=1, max_hidden_layers=3, min_mlp_nodes=8, max_mlp_nodes=40) if tight else dict(min_mlp_nodes=16)
        m = EvolvableMLP(num_inputs=5, num_outputs=nout, hidden_size=[16] if tight else [32, 32], layer_norm=case.get("layer_norm", True),
                         noisy=case.get("noisy", False), **kw)
        return m, (lambda r, n: (torch.as_tensor(r.randn(n, 5).astype(np.float32)),)), ("tensor", (nout,))
    if kind == "CNN2d":
        kw = dict(min_hidden_layers=1, max_hidden_layers=3, min_channel_size=4, max_channel_size=20) if tight else dict(min_channel_size=8, max_channel_size=64)
        h, w_ = case.get("img_hw", [12, 12])
        m = EvolvableCNN(input_shape=[3, h, w_], num_outputs=nout, channel_size=[8] if tight else [16, 16], kernel_size=[3] if tight else [3, 3],
                         stride_size=[1] if tight else [1, 1], layer_norm=case.get("layer_norm", False), **kw)
        return m, (lambda r, n: (torch.as_tensor(r.rand(n, 3, h, w_).astype(np.float32)),)), ("tensor", (nout,))
    if kind == "CNN3d":
        two = not tight  # a second layer from the start: kernel mutations of the *first* layer (whose kernel spans the depth) need one
        m = EvolvableCNN(input_shape=[3, 2, 10, 10], num_outputs=nout, channel_size=[8, 8] if two else [8],
                         kernel_size=([(1, 3, 3)] if case.get("tuple_kernels") else [3]) * (2 if two else 1), stride_size=[1, 1] if two else [1], block_type="Conv3d",
                         sample_input=torch.zeros(1, 3, 2, 10, 10), min_hidden_layers=1, max_hidden_layers=3, min_channel_size=4, max_channel_size=24)
        return m, (lambda r, n: (torch.as_tensor(r.rand(n, 3, 2, 10, 10).astype(np.float32)),)), ("tensor", (nout,))
    if kind == "LSTM":
        kw = dict(min_hidden_size=8, max_hidden_size=40, min_layers=1, max_layers=2) if tight else {}
        m = EvolvableLSTM(input_size=3, hidden_size=16 if tight else 64, num_outputs=nout, num_layers=1, **kw)
        return m, (lambda r, n: (torch.as_tensor(r.randn(n, 4, 3).astype(np.float32)),)), ("tensor", (nout,))
    if kind == "SimBa":
        kw = dict(min_blocks=1, max_blocks=3, min_mlp_nodes=8, max_mlp_nodes=48) if tight else {}
        m = EvolvableSimBa(num_inputs=5, num_outputs=nout, hidden_size=16 if tight else 64, num_blocks=1 if tight else 2, **kw)
        return m, (lambda r, n: (torch.as_tensor(r.randn(n, 5).astype(np.float32)),)), ("tensor", (nout,))
    if kind == "ResNet":
        kw = dict(min_blocks=1, max_blocks=3, min_channel_size=4, max_channel_size=24) if tight else dict(min_channel_size=8, max_channel_size=64)
        m = EvolvableResNet(input_shape=[3, 12, 12], num_outputs=nout, channel_size=8 if tight else 16, kernel_size=3, stride_size=1, num_blocks=1, **kw)
        return m, (lambda r, n: (torch.as_tensor(r.rand(n, 3, 12, 12).astype(np.float32)),)), ("tensor", (nout,))
    if kind == "MultiInput":
        sp = _obs_space(case.get("obs", "dict"), case.get("img_hw", [12, 12]))
        extra = {}
        if int(case["seed"]) % 3 == 0:
            # a user configuration of the image extractor, with a name of its own (parameter names embed it): rebuilds must reproduce it
            extra["cnn_config"] = {"channel_size": [8, 8], "kernel_size": [3, 3], "stride_size": [1, 1], "output_activation": "ReLU", "name": "vision"}
        m = EvolvableMultiInput(observation_space=sp, num_outputs=nout, latent_dim=16, vector_space_mlp=case.get("vector_space_mlp", False),
                                min_latent_dim=8, max_latent_dim=40 if tight else 128, **extra)
        return m, (lambda r, n: (_sample_input(sp, r, n),)), ("tensor", (nout,))
    # ---- networks ----
    obs = case["obs"]
    sp = _obs_space(obs, case.get("img_hw", [12, 12]))
    nc: Dict[str, Any] = {}
    if tight:
        nc["head_config"] = {"hidden_size": [16], "min_hidden_layers": 1, "max_hidden_layers": 2, "min_mlp_nodes": 8, "max_mlp_nodes": 40}
        nc.update(latent_dim=16, min_latent_dim=8, max_latent_dim=32)
        if obs in ("vector", "discrete"):
            nc["encoder_config"] = {"hidden_size": [16], "min_hidden_layers": 1, "max_hidden_layers": 2, "min_mlp_nodes": 8, "max_mlp_nodes": 40, "activation": "ReLU"}
        elif obs == "image":
            nc["encoder_config"] = {"channel_size": [8], "kernel_size": [3], "stride_size": [1], "min_hidden_layers": 1, "max_hidden_layers": 3,
                                    "min_channel_size": 4, "max_channel_size": 20, "activation": "ReLU"}
    if case.get("no_activation_key") and obs in ("vector", "discrete"):
        nc["encoder_config"] = {"hidden_size": [64]}  # a user config without an 'activation' entry
    if obs == "sequence":
        nc["recurrent"] = True
        nc["encoder_config"] = ({"hidden_size": 16, "num_layers": 1, "min_hidden_size": 8, "max_hidden_size": 40, "min_layers": 1, "max_layers": 2}
                                if tight else {"hidden_size": 64, "num_layers": 1})
    if case.get("simba") and obs == "vector" and kind in ("QNetwork", "ContinuousQNetwork", "ValueNetwork", "DeterministicActor", "StochasticActor"):
        nc["simba"] = True
        nc.pop("encoder_config", None)
    ce = case.get("custom_encoder")
    if ce and kind != "RainbowQNetwork" and not nc.get("simba") and not nc.get("recurrent"):
        # a user-supplied encoder class (or the "ResNet" alias): the network then rebuilds the encoder through that class's constructor description
        if ce == "mlp" and obs == "vector":
            nc["encoder_cls"] = EvolvableMLP
            nc["encoder_config"] = {"num_inputs": 5, "hidden_size": [16], "activation": "ReLU", "min_hidden_layers": 1, "max_hidden_layers": 2, "min_mlp_nodes": 8, "max_mlp_nodes": 40}
        elif ce == "resnet" and obs == "image":
            h_, w2_ = case.get("img_hw", [12, 12])
            nc["encoder_cls"] = "ResNet"
            nc["encoder_config"] = {"input_shape": [3, h_, w2_], "channel_size": 8, "kernel_size": 3, "stride_size": 1, "num_blocks": 1, "min_blocks": 1, "max_blocks": 3,
                                    "min_channel_size": 4, "max_channel_size": 24}
    disc, box = spaces.Discrete(4), spaces.Box(-1.0, 1.0, (2,), np.float32)
    samp = lambda r, n: (_sample_input(sp, r, n),)
    case["_declared"] = {k: v for k, v in nc.items() if k in ("latent_dim", "min_latent_dim", "max_latent_dim")}
    if kind == "QNetwork":
        return QNetwork(sp, disc, **nc), samp, ("tensor", (4,))
    if kind == "RainbowQNetwork":
        nc.pop("recurrent", None)
        nc.pop("simba", None)
        return RainbowQNetwork(sp, disc, support=torch.linspace(-5, 5, 11), num_atoms=11, **nc), samp, ("tensor", (4,))
    if kind == "ContinuousQNetwork":
        nc.pop("recurrent", None)
        return ContinuousQNetwork(sp, box, **nc), (lambda r, n: (_sample_input(sp, r, n), torch.as_tensor(r.uniform(-1, 1, size=(n, 2)).astype(np.float32)))), ("tensor", (1,))
    if kind == "ValueNetwork":
        return ValueNetwork(sp, **nc), samp, ("tensor", (1,))
    if kind == "DeterministicActor":
        return DeterministicActor(sp, box, **nc), samp, ("tensor", (2,))
    if kind == "StochasticActor":
        asp = disc if case.get("act", "discrete") == "discrete" else box
        return StochasticActor(sp, asp, **nc), samp, ("stochastic", None)
    raise ValueError(kind)


# ------------------------------------------------------------------------------------------------
# measurements
# ------------------------------------------------------------------------------------------------
def counts(m) -> Dict[str, Tuple[Any, Any, Any]]:
    """path -> (value, min, max) for every bounded count of the module tree."""
    from agilerl.modules import EvolvableCNN, EvolvableLSTM, EvolvableMLP, EvolvableResNet, EvolvableSimBa
    from agilerl.modules.base import EvolvableModule

    out: Dict[str, Tuple[Any, Any, Any]] = {}

    def visit(mod, prefix):
        g = lambda a: getattr(mod, a, None)
        if isinstance(mod, EvolvableMLP):
            out[prefix + "layers"] = (len(mod.hidden_size), g("min_hidden_layers"), g("max_hidden_layers"))
            for i, h in enumerate(mod.hidden_size):
                out[prefix + f"nodes[{i}]"] = (int(h), g("min_mlp_nodes"), g("max_mlp_nodes"))
        elif isinstance(mod, EvolvableCNN):
            out[prefix + "layers"] = (len(mod.channel_size), g("min_hidden_layers"), g("max_hidden_layers"))
            for i, h in enumerate(mod.channel_size):
                out[prefix + f"channels[{i}]"] = (int(h), g("min_channel_size"), g("max_channel_size"))
            for i, k in enumerate(mod.kernel_size):
                kk = k if isinstance(k, int) else k[-1]
                out[prefix + f"kernel[{i}]"] = (int(kk), 1, None)
        elif isinstance(mod, EvolvableLSTM):
            out[prefix + "layers"] = (int(mod.num_layers), g("min_layers"), g("max_layers"))
            out[prefix + "nodes"] = (int(mod.hidden_size), g("min_hidden_size"), g("max_hidden_size"))
        elif isinstance(mod, EvolvableSimBa):
            out[prefix + "blocks"] = (int(mod.num_blocks), g("min_blocks"), g("max_blocks"))
            out[prefix + "nodes"] = (int(mod.hidden_size), g("min_mlp_nodes"), g("max_mlp_nodes"))
        elif isinstance(mod, EvolvableResNet):
            out[prefix + "blocks"] = (int(mod.num_blocks), g("min_blocks"), g("max_blocks"))
            out[prefix + "channels"] = (int(mod.channel_size), g("min_channel_size"), g("max_channel_size"))
        if hasattr(mod, "latent_dim") and hasattr(mod, "max_latent_dim"):
            out[prefix + "latent"] = (int(mod.latent_dim), g("min_latent_dim"), g("max_latent_dim"))
        for name, child in mod.named_children():
            _walk(child, prefix + name + ".")

    def _walk(mod, prefix):
        if isinstance(mod, EvolvableModule):
            visit(mod, prefix)
        else:
            for name, child in mod.named_children():
                _walk(child, prefix + name + ".")

    visit(m, "")
    return out


def forward(m, args, decl):
    if decl[0] == "stochastic":
        seed_all(777)
    return m(*args)


def out_tensors(o) -> List[torch.Tensor]:
    if isinstance(o, torch.Tensor):
        return [o]
    if isinstance(o, (tuple, list)):
        return [t for t in o if isinstance(t, torch.Tensor)]
    return []


def same_output(a, b) -> bool:
    ta, tb = out_tensors(a), out_tensors(b)
    return len(ta) == len(tb) and all(x.shape == y.shape and torch.equal(x, y) for x, y in zip(ta, tb))


# ------------------------------------------------------------------------------------------------
# generator
# ------------------------------------------------------------------------------------------------
def gen(prop: str, rng: random.Random, tier: str) -> Dict[str, Any]:
    if rng.random() < 0.45:
        kind = rng.choice(BLOCKS)
        case: Dict[str, Any] = {"kind": kind}
        if kind == "MultiInput":
            case["obs"] = rng.choice(["dict", "tuple"])
            case["vector_space_mlp"] = rng.random() < 0.4
        if kind in ("MLP", "CNN2d"):
            case["layer_norm"] = rng.random() < 0.6
        if kind == "MLP":
            case["noisy"] = rng.random() < 0.2
        if kind == "CNN3d":
            case["tuple_kernels"] = rng.random() < 0.25
    else:
        kind = rng.choice(NETS)
        obs = rng.choice(NET_OBS)
        if kind in ("RainbowQNetwork", "ContinuousQNetwork") and obs == "sequence":
            obs = "vector"
        case = {"kind": kind, "obs": obs, "act": rng.choice(["discrete", "box"]), "simba": kind != "RainbowQNetwork" and rng.random() < 0.15,
                "no_activation_key": rng.random() < 0.15, "companion": rng.random() < 0.5, "custom_encoder": rng.choice([None, None, "mlp", "resnet"])}
        if kind == "RainbowQNetwork":
            case["custom_encoder"] = None  # (its companion network must have the same encoder family as the policy, as real actor / critic pairs do)
    case["img_hw"] = rng.choice([[12, 12], [12, 12], [8, 24], [10, 40], [24, 8], [16, 16]])  # square, landscape and portrait images
    long_walk = rng.random() < 0.25
    case["tight"] = (not long_walk) and rng.random() < 0.75
    n = rng.randint(20, 60) if (long_walk and tier == "thorough") else rng.randint(3, 14 if tier == "quick" else 30)
    ops: List[Dict[str, Any]] = []
    for _ in range(n):
        x = rng.random()
        s = rng.getrandbits(31)
        if x < 0.72:
            ops.append({"op": "mutate", "pick": rng.random(), "explicit": rng.random() < 0.3, "delta": rng.choice([1, 4, 8, 16, 32]), "seed": s,
                        "inplace": rng.random() < 0.25})  # mutate the live network itself (no clone in between), as a population that is mutated but not re-selected does
        elif x < 0.82:
            ops.append({"op": "rebuild"})
        elif x < 0.9:
            ops.append({"op": "activation", "name": rng.choice(["ReLU", "ELU", "GELU", "Tanh"])})
        else:
            ops.append({"op": "perturb", "seed": s})
    case.update({"engine": "modsim", "prop": prop, "seed": rng.getrandbits(31), "ops": ops})
    return case


# ------------------------------------------------------------------------------------------------
# run
# ------------------------------------------------------------------------------------------------
DELTAS = {"node": 64, "channel": 32, "latent": 32}


def _perturb(m, seed: int) -> None:
    g = torch.Generator().manual_seed(seed % (2**31 - 1))
    with torch.no_grad():
        for p in m.parameters():
            p.add_(0.05 * torch.randn(p.shape, generator=g) + 0.01)


def _relevant(cnts, method: str) -> Dict[str, Tuple[Any, Any, Any]]:
    prefix = method.rsplit(".", 1)[0] + "." if "." in method else ""
    base = method.rsplit(".", 1)[-1]
    sel = {k: v for k, v in cnts.items() if k.startswith(prefix)}
    if "latent" in base:
        return {k: v for k, v in sel.items() if k == prefix + "latent"}
    if prefix == "":
        # a top-level (non-dotted) method of a block acts on the block's own counts
        sel = {k: v for k, v in sel.items() if "." not in k}
    return sel


def _could_be_blocked(rel, base: str) -> bool:
    """Could a bound have stopped `base` (with any admissible random argument) given the counts before the call?"""
    for path, (v, lo, hi) in rel.items():
        what = path.rsplit(".", 1)[-1].split("[")[0]
        if base.startswith("add"):
            step = 1 if what in ("layers", "blocks") else (DELTAS["channel"] if what == "channels" else DELTAS["node"])
            if hi is not None and v + step >= hi:  # some limits are strict ('<'), some are not: either counts as 'stopped by the bound'
                return True
        elif base.startswith("remove"):
            step = 1 if what in ("layers", "blocks") else (DELTAS["channel"] if what == "channels" else DELTAS["node"])
            if lo is not None and v - step <= lo:
                return True
        else:
            return True  # change_kernel etc. may legitimately re-draw the same value
    return False


def run(prop: str, case: Dict[str, Any]) -> Dict[str, Any]:
    torch.set_num_threads(1)
    ctx = kernel.Ctx(prop, case)
    loc = {"module": case["kind"] + (":" + case["obs"] if case.get("obs") and case["kind"] not in BLOCKS else "")}
    if case.get("no_activation_key") and case.get("obs") in ("vector", "discrete") and case["kind"] not in BLOCKS and not (case.get("simba") and case["obs"] == "vector"):
        loc["encoder_config_without_activation"] = True
    if case.get("tuple_kernels"):
        loc["tuple_kernels"] = True
    try:
        _run(ctx, prop, case, loc)
    except kernel.HarnessError:
        raise
    except Exception as e:
        info = kernel.classify_exception(e, os.environ.get("VERIF_REPO", "/repo"))
        if info["where"] != "repo":
            raise
        op = case["ops"][ctx.op_index] if ctx.op_index is not None and ctx.op_index < len(case["ops"]) else {}
        ctx.report(f"{prop}/exception:{info['type']}@{info['site']}", f"{type(e).__name__}: {str(e)[:300]} (op {ctx.op_index}: {op}; last method {ctx.case.get('_last_method')})", **loc)
    return ctx.result()


def _run(ctx: kernel.Ctx, prop: str, case: Dict[str, Any], loc: Dict[str, Any]) -> None:
    m, sampler, decl = build(case)
    comp = None
    if case.get("companion"):
        c2 = dict(case)
        c2["kind"] = "ValueNetwork" if case["kind"] != "ValueNetwork" else "QNetwork"
        c2["seed"] = case["seed"] + 1
        comp, comp_sampler, comp_decl = build(c2)
    r0 = np.random.RandomState(case["seed"] % (2**32 - 1))
    probes = [sampler(r0, n) for n in (1, 2, 3)]
    c3 = prop == "C03"
    n_mut = 0
    methods_seen = set()

    def check_forward(mod, when: str) -> None:
        mod.eval()
        with torch.no_grad():
            for args in probes:
                o = forward(mod, args, decl)
                n = len(args[0]) if isinstance(args[0], torch.Tensor) else len(next(iter(args[0].values()))) if isinstance(args[0], dict) else len(args[0][0])
                ts = out_tensors(o)
                if not ts or any(not torch.isfinite(t.float()).all() for t in ts):
                    ctx.report("C03/non_finite_output", f"{when}: output not finite for batch size {n}", **loc)
                    return
                if decl[0] == "tensor" and tuple(ts[0].shape) != (n,) + decl[1]:
                    ctx.report("C03/output_shape", f"{when}: output shape {tuple(ts[0].shape)} for batch size {n}, declared {(n,) + decl[1]}", **loc)
                    return
                if decl[0] == "stochastic" and any(t.shape[0] != n for t in ts):
                    ctx.report("C03/output_shape", f"{when}: stochastic actor outputs {[tuple(t.shape) for t in ts]} for batch size {n}", **loc)
                    return

    def check_bounds(before, after, when: str) -> None:
        for path, (v, lo, hi) in after.items():
            outside = (lo is not None and v < lo) or (hi is not None and v > hi)
            if not outside:
                continue
            was = before.get(path)
            if was is None:
                # a new layer: it inherits the size of an existing layer; if that one already sat outside its declared range
                # (the default multi-input CNN starts with 16 channels against min_channel_size=32) nothing moved outside
                kind = path.rsplit(".", 1)[-1].split("[")[0]
                prefix = path.rsplit(".", 1)[0] if "." in path else ""
                if any(p.rsplit(".", 1)[-1].split("[")[0] == kind and (p.rsplit(".", 1)[0] if "." in p else "") == prefix and b[0] == v for p, b in before.items()):
                    ctx.probe("starts_outside_bounds")
                    continue
            if was is not None:
                was_out_lo = lo is not None and was[0] < lo
                was_out_hi = hi is not None and was[0] > hi
                if (was_out_lo and was[0] <= v and not (hi is not None and v > hi)) or (was_out_hi and was[0] >= v and not (lo is not None and v < lo)):
                    ctx.probe("starts_outside_bounds")
                    continue  # stay-inside rule: it already was outside before the step and did not move further away
            ctx.report("C03/out_of_bounds", f"{when}: {path} = {v} outside [{lo}, {hi}] (before: {was[0] if was else None})", count=path.rsplit('.', 1)[-1].split('[')[0], **loc)

    def rebuild(mod, when: str):
        """restart from the durable description: constructor args + state dict, strictly"""
        try:
            fresh = type(mod)(**copy.deepcopy(mod.init_dict))
        except Exception as e:
            ctx.report("C03/rebuild_constructor_fails", f"{when}: type(m)(**init_dict) raised {type(e).__name__}: {str(e)[:200]}", **loc)
            return None
        try:
            fresh.load_state_dict(mod.state_dict(), strict=True)
        except Exception as e:
            ctx.report("C03/rebuild_rejects_weights", f"{when}: rebuilt architecture does not accept the current weights: {str(e)[:300]}", **loc)
            return None
        mod.eval()
        fresh.eval()
        with torch.no_grad():
            if not same_output(forward(mod, probes[1], decl), forward(fresh, probes[1], decl)):
                ctx.report("C03/rebuild_different_function", f"{when}: network rebuilt from init_dict + state_dict computes different outputs "
                                                             f"(architecture description does not match the live network)", **loc)
                return None
        return fresh

    check_forward(m, "after construction")
    declared = case.get("_declared") or {}
    if c3:
        # the bounds that count are the ones the caller declared: a network that quietly replaces them with its defaults stays "inside its bounds" forever
        for key, want in sorted(declared.items()):
            have = getattr(m, key, None)
            if have is not None and have != want:
                ctx.report("C03/declared_bound_ignored", f"after construction: {key} was declared as {want}, the network works with {have}", bound=key, **loc)
    for oi, op in enumerate(case["ops"]):
        ctx.op_index = oi
        ctx.steps += 1
        k = op["op"]
        if k == "perturb":
            _perturb(m, op["seed"])
            ctx.log("mod", "perturb")
        elif k == "activation":
            try:
                m.change_activation(op["name"], output=False)
            except NotImplementedError:
                continue
            ctx.log("mod", "activation", op["name"])
            if c3:
                check_forward(m, f"op {oi} change_activation({op['name']})")
                rebuild(m, f"op {oi} change_activation({op['name']})")
            else:
                cl = m.clone()
                m.eval(), cl.eval()
                with torch.no_grad():
                    if not same_output(forward(m, probes[1], decl), forward(cl, probes[1], decl)):
                        ctx.report("C04/clone_different_output", f"op {oi}: clone() after change_activation({op['name']}) computes different outputs", after="activation", **loc)
        elif k == "rebuild":
            fresh = rebuild(m, f"op {oi} rebuild") if c3 else None
            if fresh is not None:
                m = fresh
                ctx.fault("restart_from_init_dict")
            ctx.log("mod", "rebuild")
        elif k == "mutate":
            _perturb(m, op["seed"])  # weights are never at their init values when a mutation hits them
            m.eval()
            with torch.no_grad():
                out_before = forward(m, probes[1], decl)
            arch_before = _arch(m)
            cnt_before = counts(m)
            params_before = {n_: p.detach().clone() for n_, p in m.named_parameters()}
            inplace = bool(op.get("inplace"))
            m2 = m if inplace else m.clone()
            if inplace:
                ctx.probe("mutated_in_place")
                comp = None  # the follow-the-dict protocol is Mutations' (always on fresh clones): a policy mutated on its own leaves the pair for good
            if not c3 and not inplace:
                m2.eval()
                with torch.no_grad():
                    if not same_output(out_before, forward(m2, probes[1], decl)):
                        ctx.report("C04/clone_different_output", f"op {oi}: clone() computes different outputs than the network it was cloned from", after="chain", **loc)
            adv = sorted(m2.mutation_methods)
            if not adv:
                continue
            name = adv[int(op["pick"] * len(adv)) % len(adv)]
            base = name.rsplit(".", 1)[-1]
            case["_last_method"] = name
            methods_seen.add(type(m).__name__ + "." + name)
            kwargs = {}
            if op.get("explicit"):
                if base in ("add_node", "remove_node"):
                    kwargs = {"numb_new_nodes": int(op["delta"])}
                elif base in ("add_channel", "remove_channel"):
                    kwargs = {"numb_new_channels": int(op["delta"])}
                elif base in ("add_latent_node", "remove_latent_node"):
                    kwargs = {"numb_new_nodes": int(op["delta"])}
            if base == "change_kernel" and int(op["seed"]) % 2 == 0:
                # explicit layer and size: the first layer is never drawn at random, and in a 3d block it is the one whose kernel spans the depth
                kwargs = {"hidden_layer": 0, "kernel_size": 1 + int(op["delta"]) % 3}
            seed_all(op["seed"])
            ret = getattr(m2, name)(**kwargs)
            applied = m2.last_mutation_attr
            n_mut += 1
            ctx.log("mod", "mutate", {"method": name, "applied": str(applied), "kwargs": kwargs})
            arch_after = _arch(m2)
            cnt_after = counts(m2)
            changed = arch_after != arch_before
            when = f"op {oi} {name}({kwargs})"
            # tree-shaped history: the network the mutated copy was cloned from is still alive and must not have noticed anything
            if inplace:
                pass
            elif _arch(m) != arch_before:
                ctx.report(f"{prop}/parent_disturbed", f"{when} on a clone changed the architecture description of the network it was cloned from", **loc)
            elif c3:
                rebuild(m, f"{when} on a clone; the network it was cloned from")
            else:
                m3 = m.clone()
                m.eval(), m3.eval()
                with torch.no_grad():
                    if not same_output(out_before, forward(m, probes[1], decl)):
                        ctx.report("C04/noop_changes_function", f"{when} on a clone changed the function of the network it was cloned from", **loc)
                    elif not same_output(out_before, forward(m3, probes[1], decl)):
                        ctx.report("C04/clone_different_output", f"{when} on a clone: a second clone() of the parent no longer reproduces the parent", after="sibling_mutation", **loc)
            ctx.probe("parent_checked_after_child_mutation")
            if c3:
                check_forward(m2, when)
                check_bounds(cnt_before, cnt_after, when)
                if "max_latent_dim" in declared and getattr(m2, "latent_dim", None) is not None:
                    ld = int(m2.latent_dim)
                    if not (declared.get("min_latent_dim", ld) <= ld <= declared["max_latent_dim"]) and ld != int(getattr(m, "latent_dim", ld)):
                        ctx.report("C03/out_of_bounds", f"{when}: latent_dim = {ld} outside the declared [{declared.get('min_latent_dim')}, {declared['max_latent_dim']}]", count="latent_dim", **loc)
                rebuild(m2, when)
                rel = _relevant(cnt_before, name)
                if not changed and not _could_be_blocked(rel, base):
                    ctx.report("C03/advertised_mutation_no_effect", f"{when}: advertised method left the architecture unchanged although no bound could have stopped it "
                                                                    f"(relevant counts {rel}); reported applied={applied!r}", method=name, **loc)
                if changed and op.get("explicit") and base in ("add_node", "add_channel", "add_latent_node", "remove_node", "remove_channel", "remove_latent_node"):
                    sign = 1 if base.startswith("add") else -1
                    moved = {p: cnt_after[p][0] - cnt_before[p][0] for p in cnt_after if p in cnt_before and cnt_after[p][0] != cnt_before[p][0]}
                    wrong = {p: d for p, d in moved.items() if d * sign < 0}
                    if wrong:
                        ctx.report("C03/wrong_direction", f"{when}: counts moved against the advertised direction: {wrong}", method=name, **loc)
                if any(v[1] is not None and v[0] == v[1] for v in cnt_before.values()):
                    ctx.probe("at_min_before_mutation")
                if any(v[2] is not None and v[0] == v[2] for v in cnt_before.values()):
                    ctx.probe("at_max_before_mutation")
                if applied is not None and applied != name:
                    ctx.probe("fallback_method_applied")
                # companion network follows the returned mutation dict, as Mutations._apply_arch_mutation does for critics
                # (the follow-the-dict protocol is the one of Mutations, which always mutates a fresh clone: not applied to in-place steps)
                if comp is not None and applied is not None and not inplace:
                    comp2 = comp.clone()
                    if applied in comp2.mutation_methods:
                        seed_all(op["seed"])
                        getattr(comp2, applied)(**(ret if isinstance(ret, dict) else {}))
                        comp2.eval()
                        with torch.no_grad():
                            for args in [comp_sampler(np.random.RandomState(5), 2)]:
                                o = forward(comp2, args, comp_decl)
                                if any(not torch.isfinite(t.float()).all() for t in out_tensors(o)):
                                    ctx.report("C03/non_finite_output", f"{when}: companion network following the mutation dict {ret} produces non-finite output", **loc)
                        comp = comp2
                        ctx.probe("companion_followed")
            else:
                params_after = dict(m2.named_parameters())
                for n_, old in params_before.items():
                    if n_ not in params_after:
                        continue
                    new = params_after[n_].detach()
                    if old.ndim != new.ndim:
                        continue
                    sl = tuple(slice(0, min(o, n)) for o, n in zip(old.shape, new.shape))
                    if not torch.equal(old[sl], new[sl]):
                        is_norm = "norm" in n_
                        ctx.report("C04/weights_not_preserved", f"{when}: parameter {n_} ({tuple(old.shape)} -> {tuple(new.shape)}) lost its values on the common index range",
                                   norm_param=is_norm, resized=tuple(old.shape) != tuple(new.shape), **loc)
                        break
                if not changed:
                    m2.eval()
                    with torch.no_grad():
                        if not same_output(out_before, forward(m2, probes[1], decl)):
                            ctx.report("C04/noop_changes_function", f"{when}: the architecture is unchanged but the network computes a different function", **loc)
                    ctx.probe("mutation_left_architecture_unchanged")
                if any(tuple(params_after[n_].shape) != tuple(o.shape) for n_, o in params_before.items() if n_ in params_after):
                    ctx.probe("parameter_resized")
            m = m2
        ctx.state((case["kind"], case.get("obs"), tuple(sorted((p.rsplit(".", 1)[-1].split("[")[0], v[0]) for p, v in counts(m).items()))[:8]))
    ctx.nontrivial = n_mut >= 2
    for nm in sorted(methods_seen):
        ctx.probe("method:" + nm)


def warmup() -> None:
    import agilerl.modules  # noqa: F401
    import agilerl.networks.actors  # noqa: F401
    import agilerl.networks.q_networks  # noqa: F401
    import agilerl.networks.value_networks  # noqa: F401


def info(prop: str) -> Dict[str, Any]:
    return {
        "rule": "one case = (building block or network kind, observation family, tight or default bounds) x chain of clone-and-mutate steps "
                "(method drawn from the sorted list the clone advertises; explicit or module-drawn arguments) interleaved with weight perturbation, "
                "activation changes and restart-from-init_dict faults; non-trivial = at least two mutation steps; distinct = distinct event-log digest",
        "expected_probes": ["at_min_before_mutation", "at_max_before_mutation", "fallback_method_applied", "companion_followed"] if prop == "C03"
        else ["parameter_resized", "mutation_left_architecture_unchanged"],
        "state_measure": "(kind, observation family, vector of layer/node/channel/block/kernel/latent counts) reached",
        "components_real": ["agilerl.modules (EvolvableMLP, EvolvableCNN 2d/3d, EvolvableLSTM, EvolvableSimBa, EvolvableResNet, EvolvableMultiInput, base.MutationContext / clone / preserve_parameters)",
                            "agilerl.networks (QNetwork, RainbowQNetwork, ContinuousQNetwork, ValueNetwork, DeterministicActor, StochasticActor, EvolvableDistribution)"],
        "components_stub": ["mutation scheduler (method chosen by sorted name from the simulator PRNG instead of Mutations.rng)", "inputs sampled from the spaces"],
        "assumptions": ["chains clone before every mutation, exactly as Mutations.architecture_mutate does; in-place repeated mutation of one instance is outside the statement",
                        "'could a bound have stopped it' uses the largest step a method can draw (64 nodes / 32 channels)"],
    }


def simplifiers(prop: str):
    return []
