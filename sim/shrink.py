"""Delta-debugging minimiser over the op / fault list of a case.

`reproduces(case) -> bool` re-executes the case and says whether the *same violation key* is still reported.
Budget-capped (number of executions); every candidate is a complete JSON case, so the minimised case is the
replay file."""
from __future__ import annotations

import copy
from typing import Any, Callable, Dict, List


def ddmin_list(items: List[Any], test: Callable[[List[Any]], bool], budget: List[int]) -> List[Any]:
    n = 2
    cur = list(items)
    while len(cur) >= 2 and budget[0] > 0:
        chunk = max(1, len(cur) // n)
        subsets = [cur[i : i + chunk] for i in range(0, len(cur), chunk)]
        reduced = False
        # try complements first (removing one chunk)
        for i in range(len(subsets)):
            if budget[0] <= 0:
                break
            cand = [x for j, s in enumerate(subsets) if j != i for x in s]
            if not cand and len(cur) > 0:
                pass
            budget[0] -= 1
            if test(cand):
                cur = cand
                n = max(n - 1, 2)
                reduced = True
                break
        if not reduced:
            if n >= len(cur):
                break
            n = min(len(cur), n * 2)
    # final single-element removal pass
    i = 0
    while i < len(cur) and budget[0] > 0 and len(cur) > 1:
        cand = cur[:i] + cur[i + 1 :]
        budget[0] -= 1
        if test(cand):
            cur = cand
        else:
            i += 1
    return cur


def shrink_case(
    case: Dict[str, Any],
    reproduces: Callable[[Dict[str, Any]], bool],
    list_keys=("ops", "faults"),
    simplifiers: List[Callable[[Dict[str, Any]], List[Dict[str, Any]]]] = (),
    budget: int = 60,
) -> Dict[str, Any]:
    b = [budget]
    cur = copy.deepcopy(case)
    for key in list_keys:
        if key not in cur or not isinstance(cur[key], list) or len(cur[key]) < 2:
            continue

        def test(lst, key=key):
            c = copy.deepcopy(cur)
            c[key] = lst
            try:
                return reproduces(c)
            except Exception:
                return False

        cur[key] = ddmin_list(cur[key], test, b)
    # argument simplification: engine-provided candidate generators, applied greedily to a fixed point
    progress = True
    while progress and b[0] > 0:
        progress = False
        for simp in simplifiers:
            for cand in simp(cur):
                if b[0] <= 0:
                    break
                b[0] -= 1
                try:
                    ok = reproduces(cand)
                except Exception:
                    ok = False
                if ok:
                    cur = cand
                    progress = True
                    break
    cur["_shrink_runs"] = budget - b[0]
    return cur
