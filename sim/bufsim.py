"""bufsim - buffer op-history simulator (C09, C10, C11).

The real ReplayBuffer / MultiAgentReplayBuffer / MultiStepReplayBuffer / PrioritizedReplayBuffer are driven
through their public API by a generated op history; small executable reference models (a Python list, a
window scan, a list of leaves with a linear prefix scan) are the oracles, evaluated after every op.
Every transition carries one integer id in *every* field, so "fields still belong together" is a local check.
The sampling randomness is the seeded global generators; for C11 the uniform variates of the stratified sampler
are injected through a proxy installed as `agilerl.components.replay_buffer.torch` (buggify: stratum edges).
"""
from __future__ import annotations

import math
import random
from typing import Any, Dict, List

import numpy as np
import torch

from sim import kernel
from sim.rng import seed_all

F32_BELOW_ONE = float(np.float32(1.0) - np.float32(2.0 ** -24))

# --------------------------------------------------------------------------------------------------
# id-carrying transitions
# --------------------------------------------------------------------------------------------------
OBS_KINDS = ["vector", "image", "dict", "tuple", "scalar"]


def _obs(kind: str, ids: np.ndarray, off: float, batched: bool):
    """Observation(s) of `kind` whose every component encodes id + off (off in {0, .5})."""
    v = ids.astype(np.float32) + np.float32(off)
    if kind == "vector":
        o = np.stack([v, v, v], axis=-1)  # (w, 3)
    elif kind == "image":
        o = np.broadcast_to(v[:, None, None, None], (len(v), 1, 2, 2)).copy()
    elif kind == "scalar":
        o = v.copy()  # (w,) - scalar observations, the buffer reshapes them to (w, 1)
    elif kind == "dict":
        o = {"a": np.stack([v, v], axis=-1), "b": np.broadcast_to(v[:, None, None, None], (len(v), 1, 2, 2)).copy()}
    elif kind == "tuple":
        o = (np.stack([v, v], axis=-1), np.stack([v, v, v, v], axis=-1))
    else:
        raise ValueError(kind)
    if not batched:
        if isinstance(o, dict):
            o = {k: x[0] for k, x in o.items()}
        elif isinstance(o, tuple):
            o = tuple(x[0] for x in o)
        else:
            o = o[0]
    return o


def _decode_obs(x, off: float) -> List[List[float]]:
    """-> per row, the list of distinct decoded values found in all components."""
    from tensordict import TensorDictBase

    if isinstance(x, (TensorDictBase, dict)):
        parts = [_decode_obs(x[k], off) for k in sorted(x.keys())]
    elif isinstance(x, tuple):
        parts = [_decode_obs(p, off) for p in x]
    else:
        t = torch.as_tensor(x).detach().double()
        t = t.reshape(t.shape[0], -1) - off
        return [sorted(set(r.tolist())) for r in t]
    n = len(parts[0])
    return [sorted(set(v for p in parts for v in p[i])) for i in range(n)]


def make_transition(kind: str, ids: np.ndarray, vectorised: bool, act_dim: int):
    """Built exactly the way train_off_policy builds it."""
    from agilerl.components.data import Transition

    batched = vectorised
    idsf = ids.astype(np.float32)
    if act_dim == 0:
        action = idsf.copy() if batched else idsf[0]
    else:
        action = np.stack([idsf] * act_dim, axis=-1) if batched else np.stack([idsf] * act_dim, axis=-1)[0]
    reward = idsf.copy() if batched else float(idsf[0])
    done = (ids % 2).astype(np.float32) if batched else np.array([float(ids[0] % 2)], dtype=np.float32)
    tr = Transition(
        obs=_obs(kind, ids, 0.0, batched),
        action=action,
        reward=reward,
        next_obs=_obs(kind, ids, 0.5, batched),
        done=done,
    )
    if not vectorised:
        tr = tr.unsqueeze(0)
    td = tr.to_tensordict()
    td.batch_size = [len(ids)]
    return td


def decode_rows(td, ctx, cls_prefix: str, locator: Dict[str, Any], check_done_parity=True) -> List[int]:
    """Decode the id of every row; report a violation if the fields of a row disagree."""
    n = td.batch_size[0] if hasattr(td, "batch_size") else len(td["reward"])
    o = _decode_obs(td["obs"], 0.0)
    no = _decode_obs(td["next_obs"], 0.5)
    a = _decode_obs(td["action"], 0.0)
    r = _decode_obs(td["reward"], 0.0)
    d = torch.as_tensor(td["done"]).reshape(n, -1).double()
    ids = []
    for i in range(n):
        vals = set(o[i]) | set(no[i]) | set(a[i]) | set(r[i])
        if len(vals) != 1 or (check_done_parity and any((float(x) != float(int(list(vals)[0]) % 2)) for x in d[i].tolist())):
            ctx.report(cls_prefix + "/row_mixed_fields",
                       f"row {i}: obs ids {o[i]}, next_obs ids {no[i]}, action ids {a[i]}, reward ids {r[i]}, done {d[i].tolist()}",
                       **locator)
            ids.append(int(o[i][0]))
        else:
            ids.append(int(list(vals)[0]))
    return ids


# --------------------------------------------------------------------------------------------------
# C09 generators
# --------------------------------------------------------------------------------------------------
def _biased_width(rng: random.Random, cap: int, cursor: int) -> int:
    """Widths that put the cursor exactly on, one before and one after the end are favoured."""
    to_end = cap - cursor
    cands = [1, cap, to_end, to_end - 1, to_end + 1, rng.randint(1, cap)]
    cands = [c for c in cands if 1 <= c <= cap]
    if rng.random() < 0.55:
        return rng.choice(cands)
    return rng.randint(1, cap)


def gen_c09(rng: random.Random, tier: str) -> Dict[str, Any]:
    multi = rng.random() < 0.4
    cap = rng.choice([1, 2, 3, 4, 5, 7, 8, 9, 12, 16, 17]) if rng.random() < 0.8 else rng.randint(1, 17)
    n_ops = rng.randint(3, 30 if tier == "quick" else 60)
    case: Dict[str, Any] = {
        "engine": "bufsim", "prop": "C09", "buffer": "MultiAgentReplayBuffer" if multi else "ReplayBuffer",
        "capacity": cap, "obs_kind": rng.choice(OBS_KINDS[:4] if multi else OBS_KINDS),
        "act_dim": rng.choice([0, 1, 2]), "n_agents": rng.randint(1, 3) if multi else 1,
    }
    ops = []
    cursor = 0
    size = 0
    for _ in range(n_ops):
        x = rng.random()
        if size == 0 or x < 0.5:
            w = _biased_width(rng, cap, cursor)
            vect = True if (w > 1 or case["obs_kind"] == "scalar") else rng.random() < 0.5
            ops.append({"op": "add", "w": w, "vect": vect, "seed": rng.getrandbits(31)})
            cursor = (cursor + w) % cap
            size = min(cap, size + w)
        elif x < 0.9:
            ops.append({"op": "sample", "b": rng.choice([1, size, rng.randint(1, size)]),
                        "idx": rng.random() < 0.4, "seed": rng.getrandbits(31)})
        elif not multi:
            ops.append({"op": "clear"})
            cursor = 0
            size = 0
    case["ops"] = ops
    return case


# ---- multi-agent helpers --------------------------------------------------------------------
MA_FIELDS = ["state", "action", "reward", "next_state", "done"]


def _ma_obs(kind: str, ids: np.ndarray, off: float, agent_ix: int, vect: bool):
    v = ids.astype(np.float32) + np.float32(off) + np.float32(agent_ix / 8.0)
    if kind == "vector":
        o = np.stack([v, v, v], axis=-1)
    elif kind == "image":
        o = np.broadcast_to(v[:, None, None, None], (len(v), 1, 2, 2)).copy()
    elif kind == "dict":
        o = {"a": np.stack([v, v], axis=-1), "b": np.broadcast_to(v[:, None, None, None], (len(v), 1, 2, 2)).copy()}
    elif kind == "tuple":
        o = (np.stack([v, v], axis=-1), np.stack([v, v, v], axis=-1))
    if not vect:
        if isinstance(o, dict):
            o = {k: x[0] for k, x in o.items()}
        elif isinstance(o, tuple):
            o = tuple(x[0] for x in o)
        else:
            o = o[0]
    return o


def make_ma_transition(kind: str, ids: np.ndarray, agents: List[str], vect: bool, act_dim: int):
    state, action, reward, next_state, done = {}, {}, {}, {}, {}
    for ai, ag in enumerate(agents):
        v = ids.astype(np.float32) + np.float32(ai / 8.0)
        state[ag] = _ma_obs(kind, ids, 0.0, ai, vect)
        next_state[ag] = _ma_obs(kind, ids, 0.5, ai, vect)
        if act_dim == 0:
            action[ag] = v.copy() if vect else v[0]
        else:
            aa = np.stack([v] * act_dim, axis=-1)
            action[ag] = aa if vect else aa[0]
        reward[ag] = v.copy() if vect else float(v[0])
        dd = (ids % 2).astype(bool)
        done[ag] = dd.copy() if vect else bool(dd[0])
    return state, action, reward, next_state, done


def decode_ma(sample, agents: List[str], ctx, locator) -> List[int]:
    state, action, reward, next_state, done = sample
    n = None
    per_row: List[set] = []
    bad = []
    for ai, ag in enumerate(agents):
        shift = ai / 8.0
        fields = [(_decode_obs(state[ag], shift), "state"), (_decode_obs(next_state[ag], 0.5 + shift), "next_state"),
                  (_decode_obs(action[ag], shift), "action"), (_decode_obs(reward[ag], shift), "reward")]
        if n is None:
            n = len(fields[0][0])
            per_row = [set() for _ in range(n)]
        for dec, name in fields:
            if len(dec) != n:
                bad.append(f"{name}[{ag}] has {len(dec)} rows, expected {n}")
                continue
            for i in range(n):
                per_row[i].update(dec[i])
        d = torch.as_tensor(done[ag]).reshape(n, -1).double()
        for i in range(n):
            per_row[i].update(("done", float(x)) for x in d[i].tolist())
    ids = []
    for i in range(n or 0):
        nums = sorted(v for v in per_row[i] if not isinstance(v, tuple))
        dones = sorted(v[1] for v in per_row[i] if isinstance(v, tuple))
        ok = len(nums) == 1 and float(nums[0]).is_integer() and dones == [float(int(nums[0]) % 2)]
        if not ok:
            bad.append(f"row {i}: decoded values {nums[:6]}, done {dones}")
        ids.append(int(math.floor(nums[0])) if nums else -1)
    if bad:
        ctx.report("C09/row_mixed_fields", "; ".join(bad[:4]), **locator)
    return ids


def run_c09(ctx: kernel.Ctx, case: Dict[str, Any]) -> None:
    from agilerl.components.multi_agent_replay_buffer import MultiAgentReplayBuffer
    from agilerl.components.replay_buffer import ReplayBuffer

    cap, kind, act_dim = case["capacity"], case["obs_kind"], case["act_dim"]
    multi = case["buffer"] == "MultiAgentReplayBuffer"
    loc = {"buffer": case["buffer"]}
    agents = [f"ag_{i}" for i in range(case["n_agents"])]
    buf = MultiAgentReplayBuffer(cap, MA_FIELDS, agents) if multi else ReplayBuffer(cap)
    model: List[int] = []  # ids currently stored, oldest first
    next_id = 0
    handed: List[Any] = []  # (batch, snapshot)
    wrapped = False
    cursor = 0

    def snapshot(b):
        import copy

        if multi:
            return copy.deepcopy(b)
        return b.clone()

    def same(a, b) -> bool:
        if multi:
            for fa, fb in zip(a, b):
                for ag in fa:
                    xa, xb = fa[ag], fb[ag]
                    la = list(xa.values()) if isinstance(xa, dict) else list(xa) if isinstance(xa, tuple) else [xa]
                    lb = list(xb.values()) if isinstance(xb, dict) else list(xb) if isinstance(xb, tuple) else [xb]
                    if any(not torch.equal(torch.as_tensor(p), torch.as_tensor(q)) for p, q in zip(la, lb)):
                        return False
            return True
        return bool((a == b).all())

    def full_content(seed):
        n = len(buf)
        if n == 0:
            return []
        seed_all(seed)
        if multi:
            return decode_ma(buf.sample(n), agents, ctx, loc)
        return decode_rows(buf.sample(n), ctx, "C09", loc)

    for oi, op in enumerate(case["ops"]):
        ctx.op_index = oi
        ctx.steps += 1
        kind_op = op["op"]
        if kind_op == "add":
            w = min(op["w"], cap)
            ids = np.arange(next_id, next_id + w)
            next_id += w
            seed_all(op["seed"])
            vect = bool(op["vect"] or w > 1 or kind == "scalar")  # unbatched python scalars are outside the quantifier
            if multi:
                tr = make_ma_transition(kind, ids, agents, vect, act_dim)
                buf.save_to_memory(*tr, is_vectorised=vect)
            else:
                buf.add(make_transition(kind, ids, vect, act_dim))
            if cursor + w == cap:
                ctx.probe("wrap_exactly_at_end")
            if cursor + w > cap:
                ctx.probe("wrap_across_end")
                wrapped = True
            cursor = (cursor + w) % cap
            model = (model + list(ids))[-cap:]
            ctx.log("client", "add", {"w": w, "first": int(ids[0])})
        elif kind_op == "sample":
            n = len(buf)
            if n == 0:
                continue
            b = max(1, min(op["b"], n))
            seed_all(op["seed"])
            if multi:
                batch = buf.sample(b)
                got = decode_ma(batch, agents, ctx, loc)
            else:
                batch = buf.sample(b, return_idx=bool(op.get("idx")))
                got = decode_rows(batch, ctx, "C09", loc)
                if op.get("idx"):
                    idxs = batch["idxs"].reshape(-1).tolist()
                    back = decode_rows(buf.storage[torch.as_tensor(idxs)], ctx, "C09", loc)
                    if back != got:
                        ctx.report("C09/sample_idx_mismatch", f"returned idxs {idxs} hold ids {back}, rows carry ids {got}", **loc)
            if len(got) != b:
                ctx.report("C09/sample_size", f"asked for {b} rows, got {len(got)}", **loc)
            if len(set(got)) != len(got):
                ctx.report("C09/sample_dup", f"duplicate transition in one uniform batch: ids {sorted(got)}", **loc)
                ctx.probe("dup_seen")
            if not set(got) <= set(model):
                ctx.report("C09/sample_foreign", f"sampled ids {sorted(set(got) - set(model))} are not stored (stored {model})", **loc)
            if b == n:
                ctx.probe("sample_whole_buffer")
            handed.append((batch, snapshot(batch)))
            ctx.log("client", "sample", {"b": b, "ids": got})
        elif kind_op == "clear":
            buf.clear()
            model = []
            cursor = 0
            ctx.probe("clear")
            ctx.log("client", "clear")
        # ---- invariants after every op ----
        if len(buf) != len(model):
            ctx.report("C09/len", f"len(buffer)={len(buf)} but {len(model)} transitions should be stored "
                                  f"(capacity {cap}, op {oi} {op})", **loc)
        content = full_content(kernel.derive(op.get("seed", 0), "content"))
        if sorted(content) != sorted(model):
            ctx.report("C09/content", f"stored ids {sorted(content)} != last min(N, added) ids {sorted(model)} (capacity {cap})", **loc)
            model = sorted(content)[-cap:] if content else []  # resync so that one defect is reported once per run
        for bi, (bt, snap) in enumerate(handed):
            if not same(bt, snap):
                ctx.report("C09/handed_out_batch_changed", f"batch #{bi} handed out earlier changed after op {oi} {op}", **loc)
                handed[bi] = (bt, snapshot(bt))
        ctx.state((case["buffer"], cap, cursor, len(model), kind_op))
    ctx.nontrivial = wrapped or any(o["op"] == "sample" for o in case["ops"])


# --------------------------------------------------------------------------------------------------
# C10  n-step buffer
# --------------------------------------------------------------------------------------------------
def gen_c10(rng: random.Random, tier: str) -> Dict[str, Any]:
    n = rng.choice([1, 2, 3, 3, 4, 5])
    E = rng.choice([1, 1, 2, 3, 4])
    cap = rng.choice([2, 3, 4, 5, 8, 11, 16, 64])
    T = rng.randint(n, 14 if tier == "quick" else 40)
    gamma = rng.choice([1.0, 0.99, 0.9, 0.5, rng.uniform(0.05, 1.0)])
    pat = rng.choice(["none", "sparse", "dense", "first_slot", "last_slot", "consecutive", "staggered"])
    ops = []
    for t in range(T):
        done = [0] * E
        for e in range(E):
            if pat == "none":
                p = 0.0
            elif pat == "sparse":
                p = 0.12
            elif pat == "dense":
                p = 0.45
            elif pat == "first_slot":
                p = 1.0 if (t % max(n, 2) == 0 and e == 0) else 0.05
            elif pat == "last_slot":
                p = 1.0 if (t % max(n, 2) == max(n, 2) - 1 and e == E - 1) else 0.03
            elif pat == "consecutive":
                p = 0.8 if (t // 2) % 3 == 1 else 0.0
            else:  # staggered: env e ends every (3+e) steps
                p = 1.0 if (t + 1) % (3 + e) == 0 else 0.0
            done[e] = 1 if rng.random() < p else 0
        ops.append({"op": "step", "done": done, "seed": rng.getrandbits(31)})
    return {"engine": "bufsim", "prop": "C10", "n_step": n, "gamma": gamma, "num_envs": E, "capacity": cap,
            "obs_kind": rng.choice(["vector", "image", "dict"]), "pattern": pat, "ops": ops}


def run_c10(ctx: kernel.Ctx, case: Dict[str, Any]) -> None:
    from agilerl.components.data import Transition
    from agilerl.components.replay_buffer import MultiStepReplayBuffer, ReplayBuffer

    n, gamma, E, cap, kind = case["n_step"], case["gamma"], case["num_envs"], case["capacity"], case["obs_kind"]
    loc = {"buffer": "MultiStepReplayBuffer"}
    nbuf = MultiStepReplayBuffer(cap, n_step=n, gamma=gamma)
    mem = ReplayBuffer(cap)
    raw: List[Dict[str, Any]] = []  # per raw step: reward[E], done[E]
    stored = 0  # number of n-step rows stored so far

    def ids_of(t):  # id of (t, e)
        return np.arange(E) + t * E

    for oi, op in enumerate(case["ops"]):
        ctx.op_index = oi
        ctx.steps += 1
        t = len(raw)
        r = np.random.RandomState(op["seed"] % (2**32 - 1)).uniform(-2, 2, size=E).astype(np.float32)
        done = np.asarray(op["done"][:E] + [0] * max(0, E - len(op["done"])), dtype=np.float32)
        raw.append({"r": r, "d": done})
        ids = ids_of(t)
        tr = Transition(obs=_obs(kind, ids, 0.0, True), action=ids.astype(np.float32), reward=r,
                        next_obs=_obs(kind, ids, 0.5, True), done=done).to_tensordict()
        tr.batch_size = [E]
        seed_all(op["seed"])
        ret = nbuf.add(tr)
        ctx.log("client", "step", {"t": t, "done": done.tolist()})
        if (ret is None) != (t < n - 1):
            ctx.report("C10/return_shape", f"add returned {'None' if ret is None else 'a transition'} at raw step {t} with n={n}", **loc)
        if ret is None:
            continue
        mem.add(ret)
        k = stored  # raw step the new rows must describe
        stored += 1
        if k * E % cap + E > cap:
            ctx.probe("wrap_across_end")
        # ---- the 1-step transition handed back must be raw transition k, untouched ----
        o1 = _decode_obs(ret["obs"], 0.0)
        for e in range(E):
            want = float(k * E + e)
            if o1[e] != [want] or abs(float(ret["reward"].reshape(E, -1)[e, 0]) - float(raw[k]["r"][e])) > 1e-6 \
                    or float(ret["done"].reshape(E, -1)[e, 0]) != float(raw[k]["d"][e]):
                ctx.report("C10/one_step_not_raw", f"1-step transition returned at raw step {t} is not raw transition {k} (env {e}): "
                                                   f"obs ids {o1[e]}, reward {float(ret['reward'].reshape(E, -1)[e, 0])} vs {float(raw[k]['r'][e])}", **loc)
                break
        # ---- the freshly stored n-step rows: positions (k*E .. k*E+E-1) mod cap ----
        pos = torch.as_tensor([(k * E + e) % cap for e in range(E)])
        if E > cap:
            continue  # rows overwrite each other inside one add; nothing to compare (never generated)
        rows = nbuf.sample_from_indices(pos)
        o = _decode_obs(rows["obs"], 0.0)
        a = _decode_obs(rows["action"], 0.0)
        no = _decode_obs(rows["next_obs"], 0.5)
        rew = rows["reward"].reshape(E, -1)[:, 0].double().tolist()
        dn = rows["done"].reshape(E, -1)[:, 0].double().tolist()
        for e in range(E):
            want = float(k * E + e)
            if o[e] != [want] or a[e] != [want]:
                ctx.report("C10/start_not_observed_pair", f"n-step row for raw step {k} env {e} starts at obs ids {o[e]} / action ids {a[e]}", **loc)
                continue
            # m* = number of steps up to the first terminal of env e (inclusive), capped at n and at the data seen
            m_star = n
            for j in range(n):
                if raw[k + j]["d"][e]:
                    m_star = j + 1
                    break
            if raw[k]["d"][e]:
                ctx.probe("terminal_in_first_slot")
            elif m_star < n:
                ctx.probe("terminal_in_middle_slot")
            elif raw[k + n - 1]["d"][e]:
                ctx.probe("terminal_in_last_slot")
            ok = False
            why = []
            for m in range(1, m_star + 1):
                cut_ok = (m == m_star) or bool(raw[k + m - 1]["d"].any())
                if not cut_ok:
                    continue
                ret_m = sum((gamma ** j) * float(raw[k + j]["r"][e]) for j in range(m))
                last = k + m - 1
                cond = (abs(rew[e] - ret_m) <= 1e-4 * (1 + abs(ret_m)), no[e] == [float(last * E + e)], dn[e] == float(raw[last]["d"][e]))
                if all(cond):
                    ok = True
                    if m < m_star:
                        ctx.probe("window_cut_by_other_env")
                    break
                why.append((m, round(ret_m, 5), cond))
            if not ok:
                beyond = no[e] and no[e][0] > float((k + m_star - 1) * E + e)
                cls = "C10/crosses_episode_boundary" if beyond or raw[k]["d"][e] else "C10/nstep_value"
                ctx.report(cls, f"n-step row of raw step {k} env {e} (n={n}, gamma={gamma}, first terminal after {m_star} steps): reward {rew[e]:.5f}, "
                                f"next_obs ids {no[e]}, done {dn[e]}; acceptable (m, return, [reward ok, next_obs ok, done ok]) = {why}; "
                                f"dones of the window {[raw[k + j]['d'].tolist() for j in range(n)]}",
                           first_slot_terminal=bool(raw[k]["d"][e]), **loc)
        # ---- alignment of the two buffers through the sampling path train_off_policy uses ----
        seed_all(kernel.derive(op["seed"], "align"))
        b1 = mem.sample(len(mem), return_idx=True)
        bn = nbuf.sample_from_indices(b1["idxs"])
        i1 = [x[0] if len(x) == 1 else -1 for x in _decode_obs(b1["obs"], 0.0)]
        i_n = [x[0] if len(x) == 1 else -2 for x in _decode_obs(bn["obs"], 0.0)]
        a1 = [x[0] if len(x) == 1 else -1 for x in _decode_obs(b1["action"], 0.0)]
        a_n = [x[0] if len(x) == 1 else -2 for x in _decode_obs(bn["action"], 0.0)]
        if i1 != i_n or a1 != a_n or len(mem) != len(nbuf):
            ctx.report("C10/misaligned", f"same indices give different (obs, action) in the 1-step and n-step buffers: {i1} vs {i_n}; "
                                         f"len {len(mem)} vs {len(nbuf)}", **loc)
        ctx.state((n, E, cap, tuple(int(x) for x in raw[k]["d"]), m_star if E else 0))
    ctx.nontrivial = stored > 0 and any(any(o["done"]) for o in case["ops"])


def gen_c10_loop(rng: random.Random, tier: str) -> Dict[str, Any]:
    return {"engine": "bufsim", "prop": "C10", "mode": "loop", "n_step": rng.choice([2, 3, 3, 4]), "gamma": rng.choice([0.99, 0.9, 0.5]), "num_envs": rng.choice([1, 2, 3, 4]),
            "capacity": rng.choice([16, 32, 64]), "pop": rng.choice([1, 2, 3]), "gens": rng.choice([1, 2]), "per": rng.random() < 0.4, "len_seed": rng.randrange(1000),
            "max_len": rng.choice([1, 2, 3, 5, 9]), "ending": rng.choice(["term", "trunc", "mixed"]), "learn_step": rng.choice([1, 2, 5]), "seed": rng.getrandbits(31),
            # the documented `n_step` flag may be left at its default while an n-step memory is passed: storing and sampling depend on the memory only
            "n_step_flag": rng.random() < 0.6, "ops": [{"op": "train"}]}


def run_c10_loop(ctx: kernel.Ctx, case: Dict[str, Any]) -> None:
    """The real train_off_policy with n_step=True on a scripted vector environment: every row the loop stored in the n-step buffer is
    checked against the environment's ground-truth log; a window may not span a terminal step, an env.reset() of the loop or an evaluation phase."""
    import contextlib
    import io as _io

    import agilerl.training.train_off_policy as top
    from agilerl.components.replay_buffer import MultiStepReplayBuffer, PrioritizedReplayBuffer, ReplayBuffer
    from agilerl.utils.utils import create_population
    from sim.trainsim import Tracker, _GymTracked, instrumented

    n, gamma, E, cap = case["n_step"], case["gamma"], case["num_envs"], case["capacity"]
    loc = {"buffer": "MultiStepReplayBuffer", "mode": "train_off_policy"}
    tr = Tracker()
    spec = {"obs_kind": "vector", "act_kind": "discrete", "len_seed": case["len_seed"], "max_len": case["max_len"], "ending": case["ending"]}
    env = _GymTracked(spec, E, tr)
    seed_all(case["seed"])
    INIT_HP = {"BATCH_SIZE": 4, "LR": 1e-3, "LEARN_STEP": case["learn_step"], "GAMMA": gamma, "TAU": 0.1, "N_STEP": n, "NUM_ATOMS": 11, "V_MIN": -5.0, "V_MAX": 5.0}
    pop = create_population("Rainbow DQN", env.single_observation_space, env.single_action_space, {"latent_dim": 16, "head_config": {"hidden_size": [16]}}, INIT_HP,
                            population_size=case["pop"], num_envs=E)
    memory = PrioritizedReplayBuffer(cap, alpha=0.6) if case["per"] else ReplayBuffer(cap)
    n_mem = MultiStepReplayBuffer(cap, n_step=n, gamma=gamma)
    evo_steps = max(E, case["learn_step"]) * 4
    max_steps = (evo_steps // E) * E * case["gens"]
    saved_time = top.time
    top.time = tr.clock
    try:
        with instrumented(tr, [type(pop[0])]), contextlib.redirect_stdout(_io.StringIO()), contextlib.redirect_stderr(_io.StringIO()):
            top.train_off_policy(env, "script", "Rainbow DQN", pop, memory, max_steps=max_steps, evo_steps=evo_steps, eval_steps=2, eval_loop=1, n_step=bool(case.get("n_step_flag", True)), per=case["per"],
                                 n_step_memory=n_mem, tournament=None, mutation=None, wb=False, verbose=False)
    finally:
        top.time = saved_time
    ctx.log("world", "trained", {"stored": len(n_mem), "log": len(env.log)})
    # ---- ground truth: per sub-environment, the steps in order with a segment id that changes at every reset / phase change
    per_env: Dict[int, List[Dict[str, Any]]] = {e: [] for e in range(E)}
    seg = 0
    last_phase = None
    for rec in env.log:
        if rec["kind"] == "reset" or rec["phase"] != last_phase:
            seg += 1
        last_phase = rec["phase"]
        if rec["kind"] == "step":
            per_env[rec["env"]].append(dict(rec, seg=seg))
    index = {e: {x["gid"]: i for i, x in enumerate(per_env[e])} for e in range(E)}
    if len(n_mem) != len(memory):
        ctx.report("C10/misaligned", f"n-step buffer holds {len(n_mem)} rows, 1-step buffer {len(memory)}", **loc)
    rows = n_mem.storage[: len(n_mem)]
    rows1 = memory.storage[: len(memory)]
    og = [int(round(float(x))) for x in rows["obs"][:, 0].tolist()]
    og1 = [int(round(float(x))) for x in rows1["obs"][:, 0].tolist()]
    if og != og1[: len(og)]:
        ctx.report("C10/misaligned", "rows with the same index describe different observations in the n-step and the 1-step buffer", **loc)
    n_checked = 0
    for i, g in enumerate(og):
        e = g // 100000
        k = index.get(e, {}).get(g)
        if k is None or per_env[e][k]["phase"] != "train":
            ctx.report("C10/start_not_observed_pair", f"stored row {i} starts at observation id {g}, which is not a training step of sub-env {e}", **loc)
            break
        steps = per_env[e]
        m_star = 0
        for j in range(n):
            if k + j >= len(steps) or steps[k + j]["seg"] != steps[k]["seg"]:
                break
            m_star = j + 1
            if steps[k + j]["end"]:
                break
        rew, dn, ng = float(rows["reward"][i].reshape(-1)[0]), float(rows["done"][i].reshape(-1)[0]), int(round(float(rows["next_obs"][i, 0])))
        ok = False
        for m in range(1, m_star + 1):
            last = steps[k + m - 1]
            others_end = any(per_env[o][index[o].get(last["gid"] - e * 100000 + o * 100000, -1)]["end"] for o in range(E)
                             if o != e and (last["gid"] - e * 100000 + o * 100000) in index[o])
            if not (m == m_star or others_end):
                continue
            want = sum((gamma ** j) * steps[k + j]["reward"] for j in range(m))
            if abs(rew - want) <= 1e-4 * (1 + abs(want)) and ng == last["gid"] + 1 and dn == float(last["end"]):
                ok = True
                break
        n_checked += 1
        if not ok:
            spans = (k + n - 1 < len(steps) and steps[k + n - 1]["seg"] != steps[k]["seg"]) or k + n - 1 >= len(steps)
            ended = [steps[k + j] for j in range(min(m_star, n)) if steps[k + j]["end"]]
            if ended and not ended[0]["terminated"]:
                # the episode was *truncated* inside the window: the loop passes only the termination flag as `done`
                cls = "C10/crosses_truncation_boundary"
                ctx.probe("truncation_inside_window")
            elif spans and not ended:
                cls = "C10/crosses_reset_between_agents"
            elif ended:
                cls = "C10/crosses_episode_boundary"
            else:
                cls = "C10/nstep_value"
            ctx.report(cls, f"stored row {i} (sub-env {e}, training step {k}, n={n}, gamma={gamma}): reward {rew:.5f}, next_obs id {ng}, done {dn}; the same uninterrupted "
                            f"episode offers {m_star} step(s) from there (rewards {[round(steps[k + j]['reward'], 3) for j in range(m_star)]}); the window spans an "
                            f"env.reset() / evaluation phase of the loop: {bool(spans)}", population=case["pop"] > 1 or case["gens"] > 1, **loc)
            if cls != "C10/crosses_truncation_boundary":
                break
    if case["pop"] > 1 or case["gens"] > 1:
        ctx.probe("loop_resets_env_between_rollouts")
    ctx.nontrivial = n_checked >= 2
    ctx.state(("loop", n, E, case["pop"], case["gens"], case["max_len"]))


# --------------------------------------------------------------------------------------------------
# C11  prioritised replay
# --------------------------------------------------------------------------------------------------
class _TorchProxy:
    """Stands in for the name `torch` inside agilerl.components.replay_buffer: `rand(1)` pops an injected variate
    (only values a real float32 torch.rand can return), everything else is the real torch."""

    def __init__(self):
        self.queue: List[float] = []
        self.used: List[float] = []

    def rand(self, *a, **k):
        if self.queue:
            u = self.queue.pop(0)
            self.used.append(u)
            return torch.tensor([u], dtype=torch.float32)
        t = torch.rand(*a, **k)
        self.used.append(float(t.reshape(-1)[0]))
        return t

    def __getattr__(self, name):
        return getattr(torch, name)


PRIOS = [1e-12, 0.0, 1e-6, 1e-5, 1e-3, 0.1, 0.5, 1.0, 1.0, 2.0, 7.5, 1e3, 1e6, 1e12]


def gen_c11(rng: random.Random, tier: str) -> Dict[str, Any]:
    cap = rng.choice([1, 2, 3, 4, 5, 6, 7, 8, 9, 12, 16, 20])
    alpha = rng.choice([0.0, 0.3, 0.6, 0.6, 1.0, rng.random()])
    n_ops = rng.randint(3, 25 if tier == "quick" else 60)
    ops = []
    size = 0
    cursor = 0
    for _ in range(n_ops):
        x = rng.random()
        if size == 0 or x < 0.35:
            w = _biased_width(rng, cap, cursor)
            ops.append({"op": "add", "w": w, "seed": rng.getrandbits(31)})
            cursor = (cursor + w) % cap
            size = min(cap, size + w)
        elif x < 0.7:
            b = rng.choice([1, 2, size, rng.randint(1, max(1, 2 * size))])
            us = []
            for _i in range(b):
                y = rng.random()
                if y < 0.15:
                    us.append("zero")
                elif y < 0.3:
                    us.append("top")
                elif y < 0.5:
                    us.append("boundary")
                else:
                    us.append(float(np.float32(rng.random())))
            ops.append({"op": "sample", "b": b, "beta": rng.choice([0.0, 0.4, 1.0, rng.random()]), "u": us, "seed": rng.getrandbits(31)})
        else:
            m = rng.randint(1, max(1, min(size, 6)))
            mode = rng.choice(["rand", "repeat", "all_same"])
            idxs = [rng.randrange(size) for _ in range(m)]
            if mode == "repeat" and m > 1:
                idxs[-1] = idxs[0]
            ops.append({"op": "update", "idxs": idxs, "prios": [rng.choice(PRIOS) if rng.random() < 0.7 else rng.uniform(0.001, 5) for _ in range(m)],
                        "last_sampled": rng.random() < 0.3})
    return {"engine": "bufsim", "prop": "C11", "capacity": cap, "alpha": alpha, "ops": ops}


def run_c11(ctx: kernel.Ctx, case: Dict[str, Any]) -> None:
    import agilerl.components.replay_buffer as rb

    cap, alpha = case["capacity"], case["alpha"]
    loc = {"buffer": "PrioritizedReplayBuffer"}
    proxy = _TorchProxy()
    real_torch = rb.torch
    rb.torch = proxy
    try:
        buf = rb.PrioritizedReplayBuffer(cap, alpha=alpha)
        leaf: List[float] = []  # model: leaf value (priority**alpha) of slot i, for stored slots
        slot_id: List[int] = []
        max_prio = 1.0
        next_id = 0
        cursor = 0
        last_idxs: List[int] = []

        def check_trees(after: str):
            n = len(leaf)
            if len(buf) != n:
                ctx.report("C11/len", f"len(buffer)={len(buf)} but model holds {n} after {after}", **loc)
            if n == 0:
                return
            tot, mn = math.fsum(leaf), min(leaf)
            got_tot, got_min = buf.sum_tree.sum(), buf.min_tree.min()
            if abs(got_tot - tot) > 1e-9 * max(abs(tot), 1e-300):
                ctx.report("C11/sum_total", f"running total {got_tot!r} != direct sum of stored priorities {tot!r} after {after}", **loc)
            if abs(got_min - mn) > 1e-12 * max(abs(mn), 1e-300):
                ctx.report("C11/min_total", f"running minimum {got_min!r} != direct minimum of stored priorities {mn!r} after {after}", **loc)
            for i in range(n):
                if abs(buf.sum_tree[i] - leaf[i]) > 1e-12 * max(abs(leaf[i]), 1e-300) or abs(buf.min_tree[i] - leaf[i]) > 1e-12 * max(abs(leaf[i]), 1e-300):
                    ctx.report("C11/leaf", f"slot {i}: sum-tree leaf {buf.sum_tree[i]!r}, min-tree leaf {buf.min_tree[i]!r}, model {leaf[i]!r} after {after}", **loc)
                    break
            for tree, opn in ((getattr(buf.sum_tree, "tree", None), "sum"), (getattr(buf.min_tree, "tree", None), "min")):
                if tree is None:
                    continue
                c = len(tree) // 2
                for node in range(1, c):
                    want = tree[2 * node] + tree[2 * node + 1] if opn == "sum" else min(tree[2 * node], tree[2 * node + 1])
                    if tree[node] != want and not (abs(tree[node] - want) <= 1e-12 * abs(want)):
                        ctx.report("C11/internal_node", f"{opn}-tree node {node} = {tree[node]!r} but children give {want!r} after {after}", **loc)
                        return

        for oi, op in enumerate(case["ops"]):
            ctx.op_index = oi
            ctx.steps += 1
            if op["op"] == "add":
                w = min(op["w"], cap)
                ids = np.arange(next_id, next_id + w)
                next_id += w
                seed_all(op["seed"])
                buf.add(make_transition("vector", ids, True, 1))
                for j in range(w):
                    p = (cursor + j) % cap
                    val = max_prio ** alpha
                    if p < len(leaf):
                        leaf[p] = val
                        slot_id[p] = int(ids[j])
                    else:
                        # ring fills 0..cap-1 in order before wrapping
                        leaf.append(val)
                        slot_id.append(int(ids[j]))
                if cursor + w > cap:
                    ctx.probe("wrap_across_end")
                cursor = (cursor + w) % cap
                ctx.log("client", "add", {"w": w})
                check_trees(f"op {oi} add(w={w})")
            elif op["op"] == "update":
                n = len(leaf)
                if n == 0:
                    continue
                idxs = [i % n for i in op["idxs"]]
                if op.get("last_sampled") and last_idxs:
                    idxs = (last_idxs * len(idxs))[: len(idxs)]
                    ctx.probe("update_just_sampled")
                prios = op["prios"][: len(idxs)]
                buf.update_priorities(torch.tensor(idxs), torch.tensor(prios, dtype=torch.float64))
                given: Dict[int, List[float]] = {}
                for i, p in zip(idxs, prios):
                    given.setdefault(i, []).append(float(p))
                    max_prio = max(max_prio, float(p))
                if len(set(idxs)) < len(idxs):
                    ctx.probe("update_repeated_index")
                for i, ps in given.items():
                    if not (0 <= i < len(leaf)):
                        continue  # an index the buffer itself handed out although nothing is stored there (reported when it was sampled)
                    actual = buf.sum_tree[i]
                    okv = False
                    for p in ps:
                        lo, hi = p ** alpha, max(p, 1e-5) ** alpha
                        if p < 1e-5:
                            ctx.probe("update_tiny_priority")
                        if p >= 1e6:
                            ctx.probe("update_huge_priority")
                        if min(lo, hi) * (1 - 1e-12) <= actual <= max(lo, hi) * (1 + 1e-12):
                            okv = True
                    if not okv:
                        ctx.report("C11/update_value", f"slot {i} was given priorities {ps} (alpha={alpha}) but its leaf is {actual!r}", **loc)
                    leaf[i] = actual if okv else max(ps[-1], 1e-5) ** alpha
                ctx.log("client", "update", {"idxs": idxs, "prios": prios})
                check_trees(f"op {oi} update({idxs},{prios})")
            elif op["op"] == "sample":
                n = len(leaf)
                if n == 0:
                    continue
                b = max(1, op["b"])
                beta = op["beta"]
                total_tree = buf.sum_tree.sum()
                seg = total_tree / b
                prefix = [0.0]
                for v in leaf:
                    prefix.append(prefix[-1] + v)
                total = prefix[-1]
                us = []
                for i, u in enumerate((op["u"] + ["zero"] * b)[:b]):
                    a_, b_ = seg * i, seg * (i + 1)
                    if u == "zero":
                        us.append(0.0)
                        ctx.fault("variate_zero")
                    elif u == "top":
                        us.append(F32_BELOW_ONE)
                        ctx.fault("variate_top_of_stratum")
                    elif u == "boundary":
                        inside = [p for p in prefix[1:-1] if a_ <= p < b_]
                        if inside and b_ > a_:
                            uu = float(np.float32((inside[len(inside) // 2] - a_) / (b_ - a_)))
                            uu = min(max(uu, 0.0), F32_BELOW_ONE)
                            us.append(uu)
                            ctx.fault("variate_on_prefix_boundary")
                        else:
                            us.append(0.5)
                    else:
                        us.append(float(u))
                proxy.queue = list(us)
                proxy.used = []
                seed_all(op["seed"])
                batch = buf.sample(b, beta)
                if proxy.queue or len(proxy.used) != b:
                    # the sampler no longer draws one variate per stratum through torch.rand(1): the seam moved
                    raise kernel.HarnessError(f"variate seam: injected {len(us)}, consumed {len(proxy.used)}")
                idxs = batch["idxs"].reshape(-1).tolist()
                wts = batch["weights"].reshape(-1).double().tolist()
                last_idxs = [int(i) for i in idxs]
                ctx.log("client", "sample", {"b": b, "beta": beta, "idxs": idxs})
                if len(idxs) != b:
                    ctx.report("C11/sample_size", f"asked for {b}, got {len(idxs)}", **loc)
                tol = 1e-11 * max(total, 1e-300) + 1e-300
                for i, idx in enumerate(idxs):
                    idx = int(idx)
                    mass = us[i] * (seg * (i + 1) - seg * i) + seg * i
                    if not (0 <= idx < n):
                        ctx.report("C11/sample_not_stored", f"sampled index {idx} but only {n} transitions are stored (capacity {cap}, mass {mass!r} of {total!r})", **loc)
                        continue
                    if not leaf[idx] > 0:
                        ctx.report("C11/sample_zero_priority", f"sampled index {idx} has priority mass {leaf[idx]}", **loc)
                    if not (prefix[idx] - tol <= mass <= prefix[idx + 1] + tol):
                        want = next((j for j in range(n) if prefix[j] <= mass < prefix[j + 1]), n - 1)
                        ctx.report("C11/sample_not_proportional", f"query mass {mass!r} (stratum {i} of {b}, u={us[i]!r}) lies in slot {want} "
                                                                  f"[{prefix[want]!r},{prefix[want + 1]!r}) but index {idx} was returned; leaves {leaf}", **loc)
                # rows carry the ids of the slots
                got_ids = decode_rows(batch, ctx, "C11", loc)
                if [slot_id[int(i)] if 0 <= int(i) < n else None for i in idxs] != got_ids:
                    ctx.report("C11/sample_row_mismatch", f"rows {got_ids} do not belong to the returned indices {idxs}", **loc)
                # weights
                ws = [(n * leaf[int(i)] / total) ** (-beta) if 0 <= int(i) < n and leaf[int(i)] > 0 else float("nan") for i in idxs]
                wmax = max((n * v / total) ** (-beta) for v in leaf)
                for i, (w_got, w_raw) in enumerate(zip(wts, ws)):
                    want = w_raw / wmax
                    if math.isnan(want):
                        continue
                    if not (abs(w_got - want) <= 2e-5 * max(want, 1e-30)):
                        ctx.report("C11/weight_value", f"weight of index {idxs[i]} is {w_got!r}, expected (N*P)^-beta / max = {want!r} (beta={beta}, N={n})", **loc)
                        break
                    if not (0 < w_got <= 1 + 1e-6):
                        ctx.report("C11/weight_range", f"weight {w_got!r} outside (0, 1]", **loc)
                        break
                check_trees(f"op {oi} sample")
            ctx.state((cap, len(leaf), cursor, op["op"], round(alpha, 1)))
        ctx.nontrivial = any(o["op"] == "sample" for o in case["ops"]) and any(o["op"] == "update" for o in case["ops"])
    finally:
        rb.torch = real_torch


# --------------------------------------------------------------------------------------------------
# engine interface
# --------------------------------------------------------------------------------------------------
def gen(prop: str, rng: random.Random, tier: str) -> Dict[str, Any]:
    if prop == "C10" and rng.random() < 0.06:
        return gen_c10_loop(rng, tier)
    return {"C09": gen_c09, "C10": gen_c10, "C11": gen_c11}[prop](rng, tier)


def run(prop: str, case: Dict[str, Any]) -> Dict[str, Any]:
    import os

    torch.set_num_threads(1)
    ctx = kernel.Ctx(prop, case)
    fn = {"C09": run_c09, "C10": run_c10, "C11": run_c11}[prop]
    if case.get("mode") == "loop":
        fn = run_c10_loop
    try:
        fn(ctx, case)
    except kernel.HarnessError:
        raise
    except Exception as e:
        info = kernel.classify_exception(e, os.environ.get("VERIF_REPO", "/repo"))
        if info["where"] != "repo":
            raise
        ctx.report(f"{prop}/exception:{info['type']}@{info['site']}", f"{type(e).__name__}: {e} (op {ctx.op_index})",
                   buffer=case.get("buffer", {"C10": "MultiStepReplayBuffer", "C11": "PrioritizedReplayBuffer"}.get(prop)))
    return ctx.result()


def info(prop: str) -> Dict[str, Any]:
    common_real = ["agilerl.components.replay_buffer (ReplayBuffer, MultiStepReplayBuffer, PrioritizedReplayBuffer)",
                   "agilerl.components.segment_tree", "agilerl.components.data.Transition",
                   "agilerl.components.multi_agent_replay_buffer.MultiAgentReplayBuffer"]
    d = {
        "C09": {
            "rule": "one case = capacity x observation kind x buffer kind x generated history of add(width)/sample(b)/clear with widths "
                    "biased to land the cursor on/one before/one after the end; non-trivial = the history wraps around or samples; "
                    "distinct = distinct event-log digest",
            "expected_probes": ["wrap_exactly_at_end", "wrap_across_end", "sample_whole_buffer", "clear"],
            "state_measure": "(buffer kind, capacity, cursor, fill, op kind) tuples reached",
        },
        "C10": {
            "rule": "one case = (n, gamma, envs, capacity, terminal-placement pattern) x scripted vector stream fed through "
                    "MultiStepReplayBuffer.add and the 1-step buffer exactly as train_off_policy does; non-trivial = at least one stored "
                    "n-step row and at least one terminal flag; distinct = distinct event-log digest",
            "expected_probes": ["terminal_in_first_slot", "terminal_in_middle_slot", "terminal_in_last_slot", "window_cut_by_other_env", "wrap_across_end"],
            "state_measure": "(n, envs, capacity, done vector of the window start, steps to first terminal) tuples",
        },
        "C11": {
            "rule": "one case = (capacity, alpha) x generated interleaving of add(width)/update_priorities/sample(b, beta, injected variates); "
                    "non-trivial = history contains both a sample and a priority update; distinct = distinct event-log digest",
            "expected_probes": ["wrap_across_end", "update_repeated_index", "update_tiny_priority", "update_huge_priority", "update_just_sampled"],
            "state_measure": "(capacity, fill, cursor, op kind, alpha bucket) tuples",
        },
    }[prop]
    d["components_real"] = common_real
    d["components_stub"] = ["transition source (id-carrying synthetic transitions)"] + (
        ["uniform variate source: proxy for the name `torch` in agilerl.components.replay_buffer (rand(1) only)"] if prop == "C11" else [])
    d["assumptions"] = ["float32 storage represents integer ids < 2**22 exactly",
                        "global torch / numpy / python RNGs are the only randomness of the buffers (re-seeded per op)"]
    return d


def simplifiers(prop: str):
    def smaller_widths(case):
        out = []
        for i, op in enumerate(case.get("ops", [])):
            if op.get("op") == "add" and op.get("w", 1) > 1:
                c = _copy(case)
                c["ops"][i]["w"] = op["w"] - 1
                out.append(c)
            if op.get("op") == "sample" and op.get("b", 1) > 1:
                c = _copy(case)
                c["ops"][i]["b"] = op["b"] - 1
                if "u" in c["ops"][i]:
                    c["ops"][i]["u"] = c["ops"][i]["u"][: c["ops"][i]["b"]]
                out.append(c)
        return out

    return [smaller_widths]


def _copy(c):
    import copy

    return copy.deepcopy(c)
