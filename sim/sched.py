"""Baton-passing scheduler over real threads with a virtual clock and deadlock detection.

Exactly one task holds the baton. Every simulated blocking operation calls `yield_()` or `block(pred, timeout)`; the
scheduler then picks the next runnable task with `rng.randrange` over the task list in creation order. When nothing
is runnable it advances the virtual clock to the earliest deadline; when nothing is runnable and no deadline exists
it raises `Deadlock` in the client task - a hang becomes a finite, replayable observation. The decision list is
the schedule trace of the run.
"""
from __future__ import annotations

import threading
from typing import Any, Callable, List, Optional


class Killed(BaseException):
    """Unwinds a task that was terminated (SIGKILL / os._exit): AgileRL's `except Exception` does not catch it."""


class Deadlock(BaseException):
    """Nobody can ever run again while the client is blocked. A BaseException on purpose: the code under test wraps pending calls in
    `except Exception` (close_extras does), and a hang must not be "handled" by the code that hangs."""


class StepCap(BaseException):
    pass


RUNNABLE, BLOCKED, DONE, NEW = "runnable", "blocked", "done", "new"


class Task:
    def __init__(self, sched: "Scheduler", name: str, fn: Optional[Callable], args: tuple, is_client: bool = False):
        self.sched = sched
        self.name = name
        self.fn = fn
        self.args = args
        self.is_client = is_client
        self.sem = threading.Semaphore(0)
        self.state = RUNNABLE
        self.pred: Optional[Callable[[], bool]] = None
        self.deadline: Optional[float] = None
        self.timed_out = False
        self.kill = False
        self.raise_in_client: Optional[BaseException] = None
        self.exit_hooks: List[Callable[[], None]] = []
        self.thread: Optional[threading.Thread] = None
        self.exc: Optional[BaseException] = None
        self.waiting_on = ""

    @property
    def done(self) -> bool:
        return self.state == DONE


class Scheduler:
    def __init__(self, rng, step_cap: int = 20000, on_decision: Optional[Callable[[str], None]] = None):
        self.rng = rng
        self.tasks: List[Task] = []
        self.now = 0.0
        self.current: Optional[Task] = None
        self.decisions = 0
        self.step_cap = step_cap
        self.trace: List[int] = []
        self.on_decision = on_decision
        self.client = Task(self, "client", None, (), is_client=True)
        self.tasks.append(self.client)
        self.current = self.client
        self.finished = False

    # ---- task management ---------------------------------------------------------------
    def spawn(self, name: str, fn: Callable, args: tuple) -> Task:
        t = Task(self, name, fn, args)

        def body():
            t.sem.acquire()
            try:
                if t.kill:
                    raise Killed()
                fn(*args)
            except Killed:
                pass
            except BaseException as e:  # a worker's own exception handling failed: remember it, never lose it
                t.exc = e
            finally:
                for h in t.exit_hooks:
                    try:
                        h()
                    except Exception:
                        pass
                t.state = DONE
                if not self.finished:
                    self._switch_away_from_dead(t)

        t.thread = threading.Thread(target=body, name=name, daemon=True)
        self.tasks.append(t)
        t.thread.start()
        return t

    def kill(self, t: Task) -> None:
        if t.state != DONE:
            t.kill = True

    # ---- scheduling points ---------------------------------------------------------------
    def _me(self) -> Task:
        return self.current

    def yield_(self, what: str = "") -> None:
        if self.finished:
            return  # e.g. a garbage-collected vector env closing itself after the run: never park anybody
        me = self._me()
        me.state = RUNNABLE
        me.waiting_on = what
        self._switch(me)

    def block(self, pred: Callable[[], bool], timeout: Optional[float] = None, what: str = "") -> bool:
        """Wait until pred() holds (True) or the timeout elapses (False). A scheduling point even if pred() already holds."""
        if self.finished:
            return bool(pred())
        me = self._me()
        me.pred = pred
        me.deadline = None if timeout is None else self.now + max(0.0, float(timeout))
        me.timed_out = False
        me.state = BLOCKED
        me.waiting_on = what
        self._switch(me)
        me.pred = None
        me.deadline = None
        return bool(pred())

    def sleep(self, d: float) -> None:
        self.block(lambda: False, d, what=f"sleep {d}")

    # ---- core -------------------------------------------------------------------------
    def _ready(self, t: Task) -> bool:
        if t.state == RUNNABLE:
            return True
        if t.state == BLOCKED:
            if t.kill or t.raise_in_client is not None or t.timed_out:
                return True
            try:
                return bool(t.pred())
            except Exception:
                return True
        return False

    def _pick(self) -> Optional[Task]:
        while True:
            ready = [t for t in self.tasks if self._ready(t)]
            if ready:
                self.decisions += 1
                if self.decisions > self.step_cap:
                    if self.client.state != DONE:
                        self.client.raise_in_client = StepCap(f"more than {self.step_cap} scheduling decisions")
                        return self.client
                i = self.rng.randrange(len(ready)) if len(ready) > 1 else 0
                self.trace.append(i)
                if self.on_decision is not None:
                    self.on_decision(ready[i].name)
                return ready[i]
            deadlines = [t.deadline for t in self.tasks if t.state == BLOCKED and t.deadline is not None]
            if deadlines:
                self.now = max(self.now, min(deadlines))
                for t in self.tasks:
                    if t.state == BLOCKED and t.deadline is not None and t.deadline <= self.now:
                        t.timed_out = True
                continue
            # nothing can ever run again
            if self.client.state == BLOCKED:
                waits = "; ".join(f"{t.name} waits on {t.waiting_on or '?'}" for t in self.tasks if t.state == BLOCKED)
                self.client.raise_in_client = Deadlock(waits)
                return self.client
            return None

    def _resume(self, me: Task) -> None:
        """Runs in `me`'s thread right after it got the baton back."""
        self.current = me
        me.state = RUNNABLE
        if me.raise_in_client is not None:
            e = me.raise_in_client
            me.raise_in_client = None
            raise e
        if me.kill and not me.is_client:
            raise Killed()

    def _switch(self, me: Task) -> None:
        nxt = self._pick()
        if nxt is me:
            self._resume(me)
            return
        if nxt is None:
            # only possible when the client is done; a worker parks forever (thread is a daemon)
            me.sem.acquire()
            self._resume(me)
            return
        self.current = nxt
        nxt.sem.release()
        me.sem.acquire()
        self._resume(me)

    def _switch_away_from_dead(self, dead: Task) -> None:
        nxt = self._pick()
        if nxt is None:
            return
        self.current = nxt
        nxt.sem.release()

    # ---- end of run ---------------------------------------------------------------------
    def shutdown(self) -> List[str]:
        """Kill + release every task that is not done; returns the names of tasks that were still alive."""
        alive = [t.name for t in self.tasks if not t.is_client and t.state != DONE]
        self.finished = True
        for t in self.tasks:
            if not t.is_client and t.state != DONE:
                t.kill = True
                t.sem.release()
        for t in self.tasks:
            if t.thread is not None:
                t.thread.join(timeout=5.0)
        return alive
