"""rollsim - scripted on-policy rollouts with a recorder at the minibatch seam (C17).

The on-policy learners fetch every minibatch through the module-level name `get_experiences_samples(idxs, states, actions,
log_probs, advantages, returns, values)`; replacing that name in agilerl.algorithms.ppo / .ippo by a recording wrapper
exposes exactly the flattened rows handed to the minibatch loop. Observations encode (agent, env, time step), so every
row can be attributed; the reference GAE is computed per (agent, env) column from the scripted rewards / episode ends.

modes:  learn  - PPO.learn / IPPO.learn fed with experiences in exactly the layout the training loops build
        loop   - the real train_on_policy on a scripted vector environment (rollout bookkeeping of the loop included)
"""
from __future__ import annotations

import os
import random
from typing import Any, Dict, List, Optional, Tuple

import numpy as np
import torch
from gymnasium import spaces

from sim import kernel
from sim.envs import ScriptVecGym, VirtualClock, decode_gid, gym_obs_space, _gym_obs, _stack
from sim.rng import seed_all

DECODABLE = ["vector", "dict_vec", "tuple"]  # no image leaves: BatchNorm would make the bootstrap value depend on how rows are batched


def gen(prop: str, rng: random.Random, tier: str) -> Dict[str, Any]:
    algo = rng.choice(["PPO", "PPO", "IPPO", "IPPO"])
    mode = "loop" if (rng.random() < (0.3 if algo == "PPO" else 0.2)) else "learn"
    T = rng.randint(1, 12)
    E = rng.choice([1, 2, 3, 4])
    case: Dict[str, Any] = {
        "engine": "rollsim", "prop": prop, "algo": algo, "mode": mode, "T": T, "E": E,
        "vectorised": True,  # agent.test() of every algorithm requires a vectorised environment (known finding under C20)
        "obs_kind": rng.choice(DECODABLE), "act_kind": rng.choice(["discrete", "box"]),
        "gamma": rng.choice([0.0, 1.0, 0.99, 0.9, round(rng.random(), 3)]), "gae_lambda": rng.choice([0.0, 1.0, 0.95, 0.5, round(rng.random(), 3)]),
        "done_pattern": rng.choice(["none", "sparse", "dense", "first_step", "last_step", "final_next_done", "all"]),
        "share_encoders": rng.random() < 0.5, "batch_size": rng.choice([2, 3, 8, 64]), "seed": rng.getrandbits(31),
        "chunks": rng.choice([1, 2, 3]), "len_seed": rng.randrange(1000), "max_len": rng.choice([1, 2, 3, 6]), "ending": rng.choice(["term", "trunc", "mixed"]),
    }
    if algo == "IPPO":
        case["groups"] = rng.choice([[1], [2], [3], [1, 1], [2, 1], [1, 2], [3, 2], [12], [11, 2]])  # agents per shared policy ("x_10" sorts before "x_2")
        case["id_order"] = rng.choice(["natural", "natural", "reversed", "interleaved"])  # order in which the environment lists its agents
        case["ma_vectorised"] = rng.random() < 0.6  # loop mode: vectorised environment, or a single parallel environment that the loop resets itself
    if not case["vectorised"]:
        case["E"] = 1
    case["ops"] = [{"op": "learn", "seed": rng.getrandbits(31)} for _ in range(1 if mode == "loop" else rng.choice([1, 1, 2]))]
    return case


def _done_matrix(case, r: np.random.RandomState, T: int, n_cols: int) -> Tuple[np.ndarray, np.ndarray]:
    """ended[t, c] = the episode of column c ended at step t (t = 0..T-1). Returns (dones (T, C) as the loops record them, next_done (C,))."""
    pat = case["done_pattern"]
    ended = np.zeros((T, n_cols), dtype=np.int8)
    if pat == "sparse":
        ended = (r.random_sample((T, n_cols)) < 0.15).astype(np.int8)
    elif pat == "dense":
        ended = (r.random_sample((T, n_cols)) < 0.5).astype(np.int8)
    elif pat == "first_step":
        ended[0, :] = 1
        ended[:, -1] = (r.random_sample(T) < 0.2)
    elif pat == "last_step":
        ended[T - 1, 0] = 1
        if T >= 2:
            ended[T - 2, -1] = 1
    elif pat == "final_next_done":
        ended[T - 1, :] = 1
    elif pat == "all":
        ended[:, :] = 1
    dones = np.zeros((T, n_cols), dtype=np.int8)   # dones[t] = done of the previous step (0 for the first step of the chunk)
    dones[1:] = ended[:-1]
    return dones, ended[T - 1].copy()


def ref_gae(rew: np.ndarray, val: np.ndarray, dones: np.ndarray, next_val: np.ndarray, next_done: np.ndarray, gamma: float, lam: float):
    T = rew.shape[0]
    adv = np.zeros_like(rew, dtype=np.float64)
    last = np.zeros(rew.shape[1], dtype=np.float64)
    for t in reversed(range(T)):
        if t == T - 1:
            nnt = 1.0 - next_done.astype(np.float64)
            nv = next_val.astype(np.float64)
        else:
            nnt = 1.0 - dones[t + 1].astype(np.float64)
            nv = val[t + 1].astype(np.float64)
        delta = rew[t] + gamma * nv * nnt - val[t]
        last = delta + gamma * lam * nnt * last
        adv[t] = last
    return adv, adv + val


class Recorder:
    """Stands in for `get_experiences_samples` in the learner's module: records the full flattened tensors once per learn call."""

    def __init__(self, real):
        self.real = real
        self.calls: List[Tuple] = []
        self._seen = None

    def __call__(self, idxs, *experiences):
        key = id(experiences[4])
        if key != self._seen:
            self._seen = key
            self.calls.append(tuple(experiences))
        return self.real(idxs, *experiences)


def _obs_rows(states, n: int):
    """row i of a (possibly dict / tuple) batched observation"""
    def row(i):
        if isinstance(states, dict):
            return {k: v[i] for k, v in states.items()}
        if isinstance(states, tuple):
            return tuple(v[i] for v in states)
        return states[i]
    return [row(i) for i in range(n)]


def _sample_actions(space, r, n):
    if isinstance(space, spaces.Discrete):
        return r.randint(0, space.n, size=n).astype(np.int64)
    return r.uniform(-1, 1, size=(n,) + space.shape).astype(np.float32)


def run(prop: str, case: Dict[str, Any]) -> Dict[str, Any]:
    torch.set_num_threads(1)
    ctx = kernel.Ctx(prop, case)
    loc = {"algo": case["algo"], "mode": case["mode"]}
    ctx.log("world", "config", {k: case.get(k) for k in ("algo", "mode", "T", "E", "obs_kind", "act_kind", "gamma", "gae_lambda", "done_pattern", "groups", "id_order", "batch_size",
                                                          "chunks", "max_len", "ending", "len_seed", "seed")})
    try:
        if case["algo"] == "IPPO" and case["mode"] == "loop":
            _run_ippo_loop(ctx, case, loc)
        elif case["algo"] == "PPO" and case["mode"] == "loop":
            _run_ppo_loop(ctx, case, loc)
        elif case["algo"] == "PPO":
            _run_ppo_learn(ctx, case, loc)
        else:
            _run_ippo_learn(ctx, case, loc)
    except kernel.HarnessError:
        raise
    except Exception as e:
        info = kernel.classify_exception(e, os.environ.get("VERIF_REPO", "/repo"))
        if info["where"] != "repo":
            raise
        ctx.report(f"{prop}/exception:{info['type']}@{info['site']}", f"{type(e).__name__}: {str(e)[:300]}", **dict(loc, **case.pop("_loc", {})))
    case.pop("_loc", None)
    return ctx.result()


def _check_rows(ctx, loc, rec_exp, table: Dict[int, Dict[str, Any]], obs_space, what: str, act_space=None, tol: float = 2e-5) -> None:
    """rec_exp = (states, actions, log_probs, advantages, returns, values) as handed to the minibatch loop;
    table[gid] = reference quantities of the (agent, env, step) that observation row belongs to."""
    states, actions, log_probs, advantages, returns, values = rec_exp
    n = int(returns.shape[0])
    if n != len(table):
        ctx.report("C17/row_count", f"{what}: {n} flattened rows for {len(table)} (agent, env, step) triples", **loc)
        return
    rows = _obs_rows(states, n)
    seen = set()
    for i in range(n):
        gid = decode_gid({k: np.asarray(v) for k, v in rows[i].items()} if isinstance(rows[i], dict) else (tuple(np.asarray(v) for v in rows[i]) if isinstance(rows[i], tuple) else np.asarray(rows[i])), obs_space)
        ref = table.get(gid)
        if ref is None or gid in seen:
            ctx.report("C17/row_unknown", f"{what}: row {i} carries observation id {gid}, which is {'repeated' if gid in seen else 'not part of the rollout'}", **loc)
            return
        seen.add(gid)
        a = float(advantages.reshape(n, -1)[i, 0])
        scale = 1.0 + abs(ref["adv"])
        if abs(a - ref["adv"]) > tol * scale * 10:
            # is it the estimate of another row (misalignment) or of no row (wrong recursion)?
            other = [g for g, rr in table.items() if abs(rr["adv"] - a) <= tol * (1.0 + abs(rr["adv"])) * 10]
            cls = "C17/row_misaligned:advantage" if other else "C17/gae_value"
            ctx.report(cls, f"{what}: row {i} (agent {ref['agent']}, env {ref['env']}, step {ref['t']}) is trained with advantage {a:.6f}; "
                            f"the GAE of that triple is {ref['adv']:.6f}" + (f" (the value belongs to triple {table[other[0]]['agent'], table[other[0]]['env'], table[other[0]]['t']})" if other else "")
                            + f"; gamma={ref['gamma']}, lambda={ref['lam']}", n_agents_sharing=ref.get("sharing", 1), **loc)
            return
        rt = float(returns.reshape(n, -1)[i, 0])
        if abs(rt - ref["ret"]) > tol * (1.0 + abs(ref["ret"])) * 10:
            ctx.report("C17/return_value", f"{what}: row {i} (agent {ref['agent']}, env {ref['env']}, step {ref['t']}) has return {rt:.6f}, expected A + V = {ref['ret']:.6f}", **loc)
            return
        v = float(values.reshape(n, -1)[i, 0])
        lp = float(log_probs.reshape(n, -1)[i, 0])
        if abs(v - ref["val"]) > 1e-6 * (1 + abs(ref["val"])) or abs(lp - ref["lp"]) > 1e-6 * (1 + abs(ref["lp"])):
            ctx.report("C17/row_misaligned:value_or_logprob", f"{what}: row {i} (agent {ref['agent']}, env {ref['env']}, step {ref['t']}) carries old value {v:.6f} / old log-prob {lp:.6f}, "
                                                              f"recorded for that triple: {ref['val']:.6f} / {ref['lp']:.6f}", n_agents_sharing=ref.get("sharing", 1), **loc)
            return
        act = np.asarray(actions.reshape(n, -1)[i].cpu().numpy(), dtype=np.float64).reshape(-1)
        want = np.asarray(ref["action"], dtype=np.float64).reshape(-1)
        if act.shape != want.shape or not np.allclose(act, want, atol=1e-6):
            ctx.report("C17/row_misaligned:action", f"{what}: row {i} (agent {ref['agent']}, env {ref['env']}, step {ref['t']}) carries action {act.tolist()}, taken there: {want.tolist()}",
                       n_agents_sharing=ref.get("sharing", 1), **loc)
            return


# ---- PPO, learn level ------------------------------------------------------------------------
def _make_ppo(case, obs_space, act_space):
    from agilerl.algorithms import PPO

    seed_all(case["seed"])
    return PPO(obs_space, act_space, batch_size=case["batch_size"], lr=1e-3, learn_step=max(1, case["T"] * case["E"]), gamma=case["gamma"], gae_lambda=case["gae_lambda"],
               update_epochs=1, share_encoders=case["share_encoders"], net_config={"latent_dim": 16, "head_config": {"hidden_size": [16]}})


def _run_ppo_learn(ctx, case, loc) -> None:
    import agilerl.algorithms.ppo as ppo_mod

    obs_space = gym_obs_space(case["obs_kind"])
    act_space = spaces.Discrete(4) if case["act_kind"] == "discrete" else spaces.Box(-1.0, 1.0, (2,), np.float32)
    agent = _make_ppo(case, obs_space, act_space)
    T, E, vect = case["T"], case["E"], case["vectorised"]
    rec = Recorder(ppo_mod.get_experiences_samples)
    ppo_mod.get_experiences_samples = rec
    try:
        for oi, op in enumerate(case["ops"]):
            ctx.op_index = oi
            ctx.steps += 1
            r = np.random.RandomState(op["seed"] % (2**32 - 1))
            dones, next_done = _done_matrix(case, r, T, E)
            rew = r.uniform(-2, 2, size=(T, E))
            val = r.uniform(-2, 2, size=(T, E)).astype(np.float32)
            lp = -r.random_sample((T, E)).astype(np.float32)
            acts = [_sample_actions(act_space, r, E) for _ in range(T)]
            gid = lambda t, e: e * 100000 + oi * 1000 + t
            states = [_stack([_gym_obs(obs_space, gid(t, e)) for e in range(E)]) for t in range(T)]
            next_state = _stack([_gym_obs(obs_space, gid(T, e)) for e in range(E)])
            if vect:
                exp = (states, acts, [lp[t] for t in range(T)], [rew[t] for t in range(T)], [dones[t].astype(np.float64) for t in range(T)], [val[t] for t in range(T)],
                       next_state, next_done)
            else:
                un = lambda x: ({k: v[0] for k, v in x.items()} if isinstance(x, dict) else (tuple(v[0] for v in x) if isinstance(x, tuple) else x[0]))
                exp = ([un(s) for s in states], [a[0] for a in acts], [lp[t][0] for t in range(T)], [float(rew[t][0]) for t in range(T)],
                       [np.int8(dones[t][0]) for t in range(T)], [val[t][0] for t in range(T)], un(next_state), np.int8(next_done[0]))
            with torch.no_grad():
                nv = agent.critic(agent.preprocess_observation(next_state)).reshape(-1).cpu().numpy().astype(np.float64)
            adv, ret = ref_gae(rew, val.astype(np.float64), dones, nv, next_done, case["gamma"], case["gae_lambda"])
            table = {gid(t, e): {"agent": 0, "env": e, "t": t, "adv": float(adv[t, e]), "ret": float(ret[t, e]), "val": float(val[t, e]), "lp": float(lp[t, e]),
                                 "action": acts[t][e], "gamma": case["gamma"], "lam": case["gae_lambda"]} for t in range(T) for e in range(E)}
            n_before = len(rec.calls)
            seed_all(op["seed"])
            agent.learn(exp)
            ctx.log("ppo", "learn", {"T": T, "E": E, "vect": vect})
            if len(rec.calls) != n_before + 1:
                raise kernel.HarnessError(f"minibatch seam: expected one recorded learn, got {len(rec.calls) - n_before}")
            _check_rows(ctx, loc, rec.calls[-1], table, obs_space, f"PPO.learn (T={T}, envs={E}, vectorised={vect})")
            if dones[1:].any() if T > 1 else False:
                ctx.probe("episode_end_inside_rollout")
            if next_done.any():
                ctx.probe("final_next_done")
            if T >= 1 and dones.shape[0] > 1 and dones[1].any():
                ctx.probe("episode_end_at_first_step")
        ctx.nontrivial = T * E >= 2
        ctx.state(("PPO", "learn", T, E, vect, case["done_pattern"], case["gamma"] in (0.0, 1.0), case["gae_lambda"] in (0.0, 1.0)))
    finally:
        ppo_mod.get_experiences_samples = rec.real


# ---- PPO, loop level: the real train_on_policy ----------------------------------------------------
def _run_ppo_loop(ctx, case, loc) -> None:
    import agilerl.algorithms.ppo as ppo_mod
    import agilerl.training.train_on_policy as top

    E = case["E"] if case["vectorised"] else None
    n_envs = case["E"] if case["vectorised"] else 1
    clock = VirtualClock()
    spec = {"obs_kind": case["obs_kind"], "act_kind": case["act_kind"], "len_seed": case["len_seed"], "max_len": case["max_len"], "ending": case["ending"]}
    env = ScriptVecGym(spec, num_envs=E, clock=clock)
    obs_space, act_space = env.single_observation_space, env.single_action_space
    agent = _make_ppo(case, obs_space, act_space)
    learn_step = max(1, case["T"]) * n_envs
    agent.learn_step = learn_step
    rec = Recorder(ppo_mod.get_experiences_samples)
    ppo_mod.get_experiences_samples = rec
    real_time = top.time
    top.time = clock
    taken: Dict[int, Dict[str, Any]] = {}
    learns: List[Dict[str, Any]] = []
    real_get_action, real_learn = agent.get_action, agent.learn

    def get_action(obs, *a, **k):
        out = real_get_action(obs, *a, **k)
        if env.phase == "train":
            action, log_prob, _, value = out
            for e in range(n_envs):
                o = obs if E is None else ({kk: v[e] for kk, v in obs.items()} if isinstance(obs, dict) else (tuple(v[e] for v in obs) if isinstance(obs, tuple) else obs[e]))
                g = decode_gid(o, obs_space)
                taken[g] = {"action": np.asarray(action)[e], "lp": float(np.asarray(log_prob).reshape(-1)[e]), "val": float(np.asarray(value).reshape(-1)[e])}
        return out

    def learn(experiences):
        with torch.no_grad():
            ns = experiences[6]
            nv = agent.critic(agent.preprocess_observation(ns)).reshape(-1).cpu().numpy().astype(np.float64)
        learns.append({"nv": nv, "log_len": len(env.log)})
        return real_learn(experiences)

    def test(*a, **k):
        env.phase = "test"
        try:
            return real_test(*a, **k)
        finally:
            env.phase = "train"

    real_test = agent.test
    agent.get_action, agent.learn, agent.test = get_action, learn, test
    try:
        chunks = case["chunks"]
        seed_all(case["seed"])
        top.train_on_policy(env, "script", "PPO", [agent], max_steps=learn_step * chunks, evo_steps=learn_step * chunks, eval_steps=2, eval_loop=1,
                            tournament=None, mutation=None, wb=False, verbose=False)
        ctx.log("ppo", "train_on_policy", {"chunks": chunks, "learn_step": learn_step})
        if len(rec.calls) != len(learns) or len(learns) != chunks:
            ctx.report("C17/learn_calls", f"expected {chunks} learn calls of {learn_step} steps, saw {len(learns)} (recorded minibatch sets: {len(rec.calls)})", **loc)
            return
        # ground truth per chunk from the environment log
        steps = [x for x in env.log if x["kind"] == "step" and x["phase"] == "train"]
        per_env: Dict[int, List[Dict[str, Any]]] = {e: [x for x in steps if x["env"] == e] for e in range(n_envs)}
        T = -(-learn_step // n_envs)
        for c in range(chunks):
            rew = np.array([[per_env[e][c * T + t]["reward"] for e in range(n_envs)] for t in range(T)])
            ended = np.array([[1 if per_env[e][c * T + t]["end"] else 0 for e in range(n_envs)] for t in range(T)], dtype=np.int8)
            gids = [[per_env[e][c * T + t]["gid"] for e in range(n_envs)] for t in range(T)]
            if any(g not in taken for row in gids for g in row):
                ctx.report("C17/rollout_bookkeeping", f"chunk {c}: an environment step has no recorded get_action call", **loc)
                return
            val = np.array([[taken[g]["val"] for g in row] for row in gids])
            dones = np.zeros((T, n_envs), dtype=np.int8)
            dones[1:] = ended[:-1]
            adv, ret = ref_gae(rew, val, dones, learns[c]["nv"], ended[T - 1], case["gamma"], case["gae_lambda"])
            table = {gids[t][e]: {"agent": 0, "env": e, "t": c * T + t, "adv": float(adv[t, e]), "ret": float(ret[t, e]), "val": float(val[t, e]), "lp": taken[gids[t][e]]["lp"],
                                  "action": taken[gids[t][e]]["action"], "gamma": case["gamma"], "lam": case["gae_lambda"]} for t in range(T) for e in range(n_envs)}
            _check_rows(ctx, loc, rec.calls[c], table, obs_space, f"train_on_policy chunk {c} (T={T}, envs={n_envs}, vectorised={E is not None})", tol=5e-5)
            if ended.any():
                ctx.probe("episode_end_inside_rollout")
            if ended[T - 1].any():
                ctx.probe("final_next_done")
        ctx.nontrivial = True
        ctx.state(("PPO", "loop", T, n_envs, E is not None, case["max_len"], case["ending"]))
    finally:
        ppo_mod.get_experiences_samples = rec.real
        top.time = real_time


# ---- IPPO, loop level: the real train_multi_agent_on_policy ---------------------------------------
def _run_ippo_loop(ctx, case, loc) -> None:
    """What the loop hands to IPPO.learn must put every episode boundary where the environment had it: dones[t] (t >= 1) is the end flag of
    the step before, next_done the end flag of the last step of the rollout - for every agent and sub-environment, with a vectorised environment
    (auto-reset inside) and with a single parallel environment that the loop resets itself. The recursion on these inputs is what the learn mode checks."""
    import agilerl.training.train_multi_agent_on_policy as tmo
    from agilerl.algorithms import IPPO
    from sim.envs import ScriptPZ
    from sim.trainsim import ScriptPZVec, Tracker, instrumented

    vect = bool(case.get("ma_vectorised", True))
    E = case["E"] if vect else 1
    n_agents = max(2, min(3, sum(case.get("groups", [2]))))
    tr = Tracker()
    truth: List[Dict[str, np.ndarray]] = []  # per training-phase step: agent -> end flags per sub-environment
    if vect:
        spec = {"obs_kind": case["obs_kind"], "act_kind": case["act_kind"], "len_seed": case["len_seed"], "max_len": case["max_len"], "ending": "term" if case["ending"] == "mixed" else case["ending"],
                "n_agents": n_agents, "homogeneous": True}
        env = ScriptPZVec(spec, E, tr)
    else:
        spec = {"n_agents": n_agents, "obs_kind": "vec_f32", "act_kind": case["act_kind"], "ending": case["ending"], "len_seed": case["len_seed"], "max_len": case["max_len"], "leave": False}
        env = ScriptPZ(spec, 0, None)
    real_step = env.step

    def step(actions):
        out = real_step(actions)
        if not vect:
            tr.clock.advance(0.01)  # (the vectorised scripted environment advances the virtual clock itself)
        if tr.phase == "train":
            term, trunc = out[2], out[3]
            truth.append({a: np.atleast_1d(np.logical_or(np.asarray(term[a]), np.asarray(trunc[a]))).astype(np.int8) for a in term})
        return out

    env.step = step
    ids = list(env.possible_agents)
    obs_spaces = [env.observation_space(a) for a in ids]
    act_spaces = [env.action_space(a) for a in ids]
    seed_all(case["seed"])
    learn_step = max(2, case["T"])
    agent = IPPO(obs_spaces, act_spaces, agent_ids=ids, batch_size=case["batch_size"], lr=1e-3, gamma=case["gamma"], gae_lambda=case["gae_lambda"], update_epochs=1, learn_step=learn_step,
                 net_config={"latent_dim": 16, "head_config": {"hidden_size": [16]}})
    rollouts: List[Tuple[int, Any]] = []
    real_learn = agent.learn

    def learn(experiences):
        rollouts.append((len(truth), experiences))
        return real_learn(experiences)

    agent.learn = learn
    chunks = case.get("chunks", 1)
    per_roll = -(-learn_step // E) * E
    saved_time = getattr(tmo, "time", None)
    tmo.time = tr.clock
    try:
        with instrumented(tr, [type(agent)]):
            tmo.train_multi_agent_on_policy(env, "script", "IPPO", [agent], max_steps=per_roll * chunks, evo_steps=per_roll * chunks, eval_steps=2, eval_loop=1,
                                            tournament=None, mutation=None, wb=False, verbose=False)
    finally:
        tmo.time = saved_time
    ctx.log("ippo", "train_multi_agent_on_policy", {"vectorised": vect, "rollouts": len(rollouts), "steps": len(truth)})
    loc = dict(loc, vectorised=vect)
    for r, (n_after, exp) in enumerate(rollouts):
        dones, next_done = exp[4], exp[7]
        T = len(next(iter(dones.values())))
        first = n_after - T
        if first < 0:
            raise kernel.HarnessError(f"rollout {r}: {T} recorded steps but only {n_after} environment steps so far")
        for a in ids:
            for t in range(1, T):
                want = truth[first + t - 1][a]
                got = np.atleast_1d(np.asarray(dones[a][t])).astype(np.int8).reshape(-1)
                if got.shape != want.shape or (got != want).any():
                    ctx.report("C17/loop_done_misaligned", f"rollout {r}, agent {a}: the loop recorded dones[{t}] = {got.tolist()}, the episodes of the sub-environments ended at the step before: "
                                                           f"{want.tolist()} (T={T}, envs={E}, vectorised={vect}) - estimates of the steps before that end would bootstrap across it", **loc)
                    return
            want = truth[first + T - 1][a]
            got = np.atleast_1d(np.asarray(next_done[a])).astype(np.int8).reshape(-1)
            if got.shape != want.shape or (got != want).any():
                ctx.report("C17/loop_done_misaligned", f"rollout {r}, agent {a}: next_done = {got.tolist()}, the last step of the rollout ended episodes {want.tolist()}", **loc)
                return
        if any(truth[first + t][a].any() for t in range(T - 1) for a in ids):
            ctx.probe("episode_end_inside_rollout")
    ctx.probe("ippo_loop_rollouts", len(rollouts))
    ctx.nontrivial = len(rollouts) >= 1 and len(truth) >= 2
    ctx.state(("IPPO-loop", vect, E, learn_step, case["ending"], case["max_len"]))


# ---- IPPO, learn level ------------------------------------------------------------------------
def _run_ippo_learn(ctx, case, loc) -> None:
    import agilerl.algorithms.ippo as ippo_mod
    from agilerl.algorithms import IPPO

    groups = case["groups"]
    ids: List[str] = []
    names = ["x", "y", "z"]
    for gi, k in enumerate(groups):
        ids += [f"{names[gi]}_{j}" for j in range(k)]
    order = case.get("id_order", "natural")
    if order == "reversed":
        ids = ids[::-1]
    elif order == "interleaved":
        per = [[a for a in ids if a.startswith(n + "_")] for n in names[:len(groups)]]
        ids = [p[j] for j in range(max(groups)) for p in per if j < len(p)]
    if order != "natural" and len(ids) > 1:
        ctx.probe("agent_ids_not_sorted")
    if max(groups) > 10:
        ctx.probe("more_than_ten_agents_share_a_policy")
    obs_space = gym_obs_space(case["obs_kind"])
    act_space = spaces.Discrete(4) if case["act_kind"] == "discrete" else spaces.Box(-1.0, 1.0, (2,), np.float32)
    seed_all(case["seed"])
    agent = IPPO([obs_space for _ in ids], [act_space for _ in ids], agent_ids=ids, batch_size=case["batch_size"], lr=1e-3, gamma=case["gamma"], gae_lambda=case["gae_lambda"],
                 update_epochs=1, net_config={"latent_dim": 16, "head_config": {"hidden_size": [16]}})
    T, E = case["T"], case["E"]
    rec = Recorder(ippo_mod.get_experiences_samples)
    ippo_mod.get_experiences_samples = rec
    loc = dict(loc, max_agents_sharing=max(groups))
    if min(groups) * T * E == 1:
        loc["single_row_policy"] = True  # one (agent, env, step) row for some policy: see known finding K-C17-1
        case["_loc"] = {"single_row_policy": True}
    try:
        for oi, op in enumerate(case["ops"]):
            ctx.op_index = oi
            ctx.steps += 1
            r = np.random.RandomState(op["seed"] % (2**32 - 1))
            gid = lambda ai, t, e: ai * 1000000 + e * 10000 + oi * 1000 + t  # < 2**24: exact in float32
            st, ac, lps, rws, dns, vls, nst, ndn = {}, {}, {}, {}, {}, {}, {}, {}
            raw: Dict[str, Dict[str, Any]] = {}
            dones_all, next_done_all = _done_matrix(case, r, T, E * len(ids))
            for ai, a in enumerate(ids):
                dones = dones_all[:, ai * E:(ai + 1) * E]
                next_done = next_done_all[ai * E:(ai + 1) * E]
                rew = r.uniform(-2, 2, size=(T, E))
                val = r.uniform(-2, 2, size=(T, E)).astype(np.float32)
                lp = -r.random_sample((T, E)).astype(np.float32)
                acts = [_sample_actions(act_space, r, E) for _ in range(T)]
                st[a] = [_stack([_gym_obs(obs_space, gid(ai, t, e)) for e in range(E)]) for t in range(T)]
                ac[a] = acts
                lps[a] = [lp[t] for t in range(T)]
                rws[a] = [rew[t] for t in range(T)]
                dns[a] = [dones[t].astype(np.float64) for t in range(T)]
                vls[a] = [val[t] for t in range(T)]
                nst[a] = _stack([_gym_obs(obs_space, gid(ai, T, e)) for e in range(E)])
                ndn[a] = next_done
                raw[a] = {"rew": rew, "val": val, "lp": lp, "acts": acts, "dones": dones, "next_done": next_done}
            # reference per shared policy
            tables: List[Dict[int, Dict[str, Any]]] = []
            for gi, shared in enumerate(agent.shared_agent_ids):
                members = [a for a in ids if agent.get_homo_id(a) == shared]
                critic = agent.critics[gi]
                table: Dict[int, Dict[str, Any]] = {}
                for a in members:
                    ai = ids.index(a)
                    from agilerl.utils.algo_utils import preprocess_observation

                    with torch.no_grad():
                        nv = critic(preprocess_observation(nst[a], obs_space, agent.device, agent.normalize_images)).reshape(-1).cpu().numpy().astype(np.float64)
                    adv, ret = ref_gae(raw[a]["rew"], raw[a]["val"].astype(np.float64), raw[a]["dones"], nv, raw[a]["next_done"], case["gamma"], case["gae_lambda"])
                    for t in range(T):
                        for e in range(E):
                            table[gid(ai, t, e)] = {"agent": a, "env": e, "t": t, "adv": float(adv[t, e]), "ret": float(ret[t, e]), "val": float(raw[a]["val"][t, e]),
                                                    "lp": float(raw[a]["lp"][t, e]), "action": raw[a]["acts"][t][e], "gamma": case["gamma"], "lam": case["gae_lambda"],
                                                    "sharing": len(members)}
                tables.append(table)
            n_before = len(rec.calls)
            seed_all(op["seed"])
            agent.learn((st, ac, lps, rws, dns, vls, nst, ndn))
            ctx.log("ippo", "learn", {"T": T, "E": E, "groups": groups})
            got = rec.calls[n_before:]
            if len(got) != len(tables):
                raise kernel.HarnessError(f"minibatch seam: expected {len(tables)} recorded policy updates, got {len(got)}")
            for gi, (g, table) in enumerate(zip(got, tables)):
                _check_rows(ctx, loc, g, table, obs_space, f"IPPO policy '{agent.shared_agent_ids[gi]}' shared by {len(table) // max(1, T * E)} agent(s) (T={T}, envs={E}, ids {ids})")
            if max(groups) > 1:
                ctx.probe("policy_shared_by_several_agents")
            if dones_all[1:].any() if T > 1 else False:
                ctx.probe("episode_end_inside_rollout")
            if next_done_all.any():
                ctx.probe("final_next_done")
        ctx.nontrivial = T * E >= 2
        ctx.state(("IPPO", T, E, tuple(groups), case["done_pattern"]))
    finally:
        ippo_mod.get_experiences_samples = rec.real


def warmup() -> None:
    import agilerl.algorithms.ippo  # noqa: F401
    import agilerl.algorithms.ppo  # noqa: F401
    import agilerl.training.train_on_policy  # noqa: F401


def info(prop: str) -> Dict[str, Any]:
    return {
        "rule": "one case = (PPO | IPPO, rollout length 1-12, 1-4 environments, 1-3 agents of which 1-3 share a policy, gamma and lambda in [0,1] incl. 0 and 1, episode-end "
                "placement pattern incl. first step, last step and final next_done, vectorised or not) x 1-2 learn calls; PPO additionally through the real train_on_policy "
                "on a scripted vector environment; non-trivial = at least two (env, step) rows; distinct = distinct event-log digest",
        "expected_probes": ["episode_end_inside_rollout", "final_next_done", "policy_shared_by_several_agents"],
        "state_measure": "(algorithm, mode, T, envs, sharing groups, done pattern, gamma/lambda at the ends of [0,1]) tuples",
        "components_real": ["agilerl.algorithms.ppo.PPO.learn / get_action", "agilerl.algorithms.ippo.IPPO.learn / _learn_individual", "agilerl.training.train_on_policy.train_on_policy",
                            "agilerl.utils.algo_utils (stack_experiences, flatten_experiences, vectorize_experiences_by_agent, concatenate_experiences_into_batches)"],
        "components_stub": ["get_experiences_samples replaced by a recording pass-through (observation seam)", "environment (ScriptVecGym) / synthetic rollouts", "time module of train_on_policy (virtual clock)"],
        "assumptions": ["critic values of the final next observation are recomputed with the same critic before learn() starts",
                        "observation kinds that can carry an exact id (vector, dict, tuple); tolerance 2e-4 relative on float32 advantages"],
    }


def simplifiers(prop: str):
    import copy

    def smaller(case):
        out = []
        for k in ("T", "E"):
            if case.get(k, 1) > 1 and case.get("vectorised", True):
                c = copy.deepcopy(case)
                c[k] -= 1
                out.append(c)
        return out

    return [smaller]
