#!/usr/bin/env python3
"""Sensitivity self-test: apply each patch in selftest/mutants/ (and seeded/*/patch.diff) to a scratch copy of
/repo/agilerl under /dev/shm, run the property's check against the copy (VERIF_REPO), expect exit 1.

usage: sensitivity.py [--runs N] [--only substring] [--seeded]      writes selftest/RESULTS.md"""
import glob, json, os, re, shutil, subprocess, sys, tempfile, time

HERE = os.path.dirname(os.path.abspath(__file__))
ROOT = os.path.dirname(HERE)


def run_mutant(patch, props, runs, tier="quick"):
    d = tempfile.mkdtemp(prefix="mut_", dir="/dev/shm")
    try:
        subprocess.run(["git", "-C", "/repo", "worktree", "add", "--detach", "-f", d + "/r"], check=True, capture_output=True)
        # carry uncommitted changes of /repo (guarded hooks under development) into the copy
        diff = subprocess.run(["git", "-C", "/repo", "diff", "HEAD"], capture_output=True, text=True).stdout
        if diff.strip():
            subprocess.run(["git", "-C", d + "/r", "apply"], input=diff, text=True, check=True)
        ap = subprocess.run(["git", "-C", d + "/r", "apply", "--whitespace=nowarn", patch], capture_output=True, text=True)
        if ap.returncode != 0:
            return {p: ("PATCH-FAILED " + ap.stderr.strip()[:200], 0.0, "") for p in props}
        out = {}
        for p in props:
            env = dict(os.environ, VERIF_REPO=d + "/r", VERIF_REPLAY_DIR=d + "/replays")
            t0 = time.time()
            cmd = ["/venv/bin/python", os.path.join(ROOT, "run_check.py"), p, "--tier", tier, "--no-evidence"]
            if runs:
                cmd += ["--runs", str(runs)]
            r = subprocess.run(cmd, env=env, capture_output=True, text=True, timeout=3600)
            classes = sorted(set(re.findall(r"^  class=(\S+)", r.stdout, re.M)))
            verdict = {0: "MISSED", 1: "DETECTED", 2: "HARNESS-ERROR"}.get(r.returncode, f"rc={r.returncode}")
            out[p] = (verdict, time.time() - t0, ",".join(classes)[:300] if verdict != "HARNESS-ERROR" else r.stdout[-400:])
        return out
    finally:
        subprocess.run(["git", "-C", "/repo", "worktree", "remove", "--force", d + "/r"], capture_output=True)
        shutil.rmtree(d, ignore_errors=True)
        subprocess.run(["git", "-C", "/repo", "worktree", "prune"], capture_output=True)


def main():
    a = sys.argv[1:]
    runs = None
    only = None
    seeded = "--seeded" in a
    if "--runs" in a:
        runs = int(a[a.index("--runs") + 1])
    if "--only" in a:
        only = a[a.index("--only") + 1]
    items = []
    for p in sorted(glob.glob(os.path.join(HERE, "mutants", "*.patch"))):
        head = open(p).read(600)
        m = re.search(r"^# properties?: *(.+)$", head, re.M)
        props = m.group(1).replace(",", " ").split() if m else []
        items.append((os.path.basename(p), p, props))
    if seeded:
        for mp in sorted(glob.glob(os.path.join(ROOT, "seeded", "*", "meta.json"))):
            meta = json.load(open(mp))
            if meta.get("outside_statement"):
                continue  # confirmed change that does not violate the statement as written (reason in its meta.json and DESIGN.md section 12)
            items.append(("seeded/" + os.path.basename(os.path.dirname(mp)), os.path.join(os.path.dirname(mp), "patch.diff"), meta.get("check_with", [meta["property"]])))
    rows = []
    for name, patch, props in items:
        if only and only not in name:
            continue
        res = run_mutant(patch, props, runs)
        for p, (verdict, secs, classes) in res.items():
            print(f"{name:48s} {p} {verdict:14s} {secs:6.1f}s {classes}", flush=True)
            rows.append((name, p, verdict, secs, classes))
    if not only:
        with open(os.path.join(HERE, "RESULTS.md"), "w") as f:
            f.write("# Sensitivity self-test results\n\nEach patch breaks a property on purpose in a scratch copy; the property's quick check must report it.\n\n")
            f.write("| mutant | property | verdict | seconds | violation classes reported |\n|---|---|---|---|---|\n")
            for r in rows:
                f.write(f"| {r[0]} | {r[1]} | {r[2]} | {r[3]:.0f} | {r[4]} |\n")
    return 0 if all(r[2] == "DETECTED" for r in rows) else 1


if __name__ == "__main__":
    sys.exit(main())
