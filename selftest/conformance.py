#!/venv/bin/python
"""Stub conformance: run a handful of scenarios with the REAL multiprocessing context (real worker processes, wall-clock
bounded) and with the simulated one, and compare the observable outcome: returned observations, exception type seen by
the caller, whether close() returns, which workers stay alive.  usage: conformance.py   (exit 0 iff all scenarios agree)"""
import multiprocessing as mp
import os
import sys
import threading
import time
import warnings

HERE = os.path.dirname(os.path.abspath(__file__))
sys.path.insert(0, os.path.dirname(HERE))
sys.path.insert(0, os.environ.get("VERIF_REPO", "/repo"))
warnings.filterwarnings("ignore")

import numpy as np  # noqa: E402

from sim.envs import ScriptPZ  # noqa: E402

SPEC = {"n_agents": 2, "obs_kind": "vec_f32", "act_kind": "discrete", "ending": "term", "len_seed": 3, "max_len": 3, "leave": False}


class RealWorld:
    """Fault plan for real worker processes: sleeps are real (short), 'die' is os._exit."""

    def __init__(self, faults):
        self.faults = faults
        self.delays = {}

        class _S:
            @staticmethod
            def sleep(d):
                time.sleep(min(d, 0.6))

        self.sched = _S()

    def fired(self, k, f):
        if f["kind"] == "die":
            os._exit(1)

    def slept(self, env, d):
        pass


MODE = {"v": "plain"}  # "plain": blocking calls; "timed": step_async + step_wait(timeout=0.1), the outcome of close(timeout=0.1) is compared


def scenario_ops(venv, n):
    """reset, 3 steps; returns a compact outcome description"""
    out = []
    if MODE["v"] == "timed":
        try:
            venv.reset(seed=5)
            venv.step_async([[1, 1] for _ in range(n)])  # per-environment action lists, as step() builds them
            venv.step_wait(timeout=0.1)
            out.append(("step", "returned"))
        except BaseException as e:
            out.append(("raised", type(e).__name__))
        return out
    try:
        obs, _ = venv.reset(seed=5)
        out.append(("reset", float(obs["a_0"][0][0]), float(obs["a_0"][n - 1][0])))
        for k in range(3):
            acts = {a: np.full(n, k % 4) for a in ["a_0", "a_1"]}
            obs, rew, te, tr, _ = venv.step(acts)
            out.append(("step", float(obs["a_0"][0][0]), float(rew["a_1"][n - 1]), bool(te["a_0"][0])))
    except BaseException as e:
        out.append(("raised", type(e).__name__))
    return out


def run_real(faults, n=2):
    from agilerl.vector.pz_async_vec_env import AsyncPettingZooVecEnv

    world = RealWorld(faults)
    venv = AsyncPettingZooVecEnv([(lambda i=i: ScriptPZ(SPEC, i, world)) for i in range(n)], context="fork")
    out = scenario_ops(venv, n)
    res = {}

    def closer():
        try:
            t0 = time.perf_counter()
            venv.close(**CLOSE_KW[MODE["v"]])
            if MODE["v"] == "timed" and time.perf_counter() - t0 > 0.45:
                res["close"] = "late"
                return
            res["close"] = "returned"
        except BaseException as e:
            res["close"] = "raised " + type(e).__name__

    t = threading.Thread(target=closer, daemon=True)
    t.start()
    t.join(8.0)
    if t.is_alive():
        res["close"] = "hangs"
    time.sleep(0.3)  # a process that has just closed its pipes may need a moment until the OS reports it as exited
    alive = [p.is_alive() for p in venv.processes]
    for p in venv.processes:
        if p.is_alive():
            p.kill()
    venv.closed = True
    return out, res.get("close"), alive


def run_sim(faults, n=2, seed=0):
    import random

    from sim import kernel
    from sim.sched import Deadlock, Scheduler, StepCap
    from sim.vecsim import Patched, World

    case = {"faults": [[k[0], k[1], k[2], f] for k, f in faults.items()], "delays": []}
    ctx = kernel.Ctx("C13", case)
    sched = Scheduler(random.Random(seed))
    world = World(sched, case, ctx)
    patched = Patched(sched, ctx, fork_inherit=True)  # the real runs use the default context, which forks
    try:
        from agilerl.vector.pz_async_vec_env import AsyncPettingZooVecEnv

        venv = AsyncPettingZooVecEnv([(lambda i=i: ScriptPZ(SPEC, i, world)) for i in range(n)])
        out = scenario_ops(venv, n)
        try:
            t0 = sched.now
            venv.close(**CLOSE_KW[MODE["v"]])
            close = "late" if MODE["v"] == "timed" and sched.now - t0 > 0.45 else "returned"
        except (Deadlock, StepCap):
            close = "hangs"
        except BaseException as e:
            close = "raised " + type(e).__name__
        alive = [p.is_alive() for p in venv.processes]
        venv.closed = True
    finally:
        sched.shutdown()
        patched.restore()
    return out, close, alive


CLOSE_KW = {"plain": {}, "timed": {"timeout": 0.1}}

SCENARIOS = {
    "no_fault": {},
    "raise_plain": {(1, "step", 2): {"kind": "raise", "exc": "ValueError", "msg": "boom"}},
    "raise_percent": {(0, "step", 1): {"kind": "raise", "exc": "RuntimeError", "msg": "rate 100% exceeded %s"}},
    "raise_in_reset": {(1, "reset", 1): {"kind": "raise", "exc": "KeyError", "msg": "k"}},
    "raise_two_arg_class": {(0, "step", 2): {"kind": "raise", "exc": "PairFault", "msg": "boom"}},
    "die_in_step": {(1, "step", 2): {"kind": "die"}},
    "die_in_reset": {(0, "reset", 1): {"kind": "die"}},
    "short_sleep": {(0, "step", 1): {"kind": "sleep", "d": 0.2}},
    # a wait that times out while a worker is stalled, then close(timeout=0.1): must come back within its limit, nobody left alive
    "timed:stall_then_close": {(1, "step", 1): {"kind": "sleep", "d": 0.6}},
    "timed:no_stall": {},
}


def main():
    import gymnasium.logger as gl

    gl.min_level = 100
    bad = 0
    for name, faults in SCENARIOS.items():
        MODE["v"] = "timed" if name.startswith("timed:") else "plain"
        real = run_real(faults)
        sims = [run_sim(faults, seed=s) for s in range(3)]
        agree = all(s == real for s in sims)
        print(f"{name:16s} {'agree' if agree else 'DIFFER'}  real={real}")
        if not agree:
            bad += 1
            for s in sims:
                print("                  sim =", s)
    print(f"conformance: {len(SCENARIOS)} scenarios, {bad} differ")
    return 1 if bad else 0


if __name__ == "__main__":
    sys.exit(main())
