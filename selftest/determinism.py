#!/usr/bin/env python3
"""Determinism self-test: every run must be a pure function of (VERIF_SEED, property, run index, code).

For each property: N run indices executed in fresh interpreters under four configurations -
  A: 16 workers, PYTHONHASHSEED=0      B: 1 worker, PYTHONHASHSEED=0 (same seed twice, other worker count)
  C: 16 workers again                   D: 4 workers, PYTHONHASHSEED=1 (re-exec bypassed on purpose)
and the per-run (event-log digest, violation keys) are diffed. Any divergence is a failure (exit 2).
usage: determinism.py [--runs N] [--seeds 1,2] [props...]"""
import json, os, subprocess, sys, tempfile
HERE = os.path.dirname(os.path.abspath(__file__)); ROOT = os.path.dirname(HERE)
sys.path.insert(0, ROOT)
from sim.registry import REGISTRY

def run(prop, seed, runs, workers, hashseed, out):
    env = dict(os.environ, PYTHONHASHSEED=str(hashseed), OMP_NUM_THREADS="1", MKL_NUM_THREADS="1", AGILERL_VERIF="1", VERIF_NO_REEXEC="1",
               VERIF_REPLAY_DIR=os.path.join(tempfile.gettempdir(), "det_replays"))
    subprocess.run(["/venv/bin/python", os.path.join(ROOT, "run_check.py"), prop, "--runs", str(runs), "--workers", str(workers), "--seed", str(seed),
                    "--no-evidence", "--no-shrink", "--digests", out], env=env, capture_output=True, text=True, timeout=3000)
    return json.load(open(out)) if os.path.exists(out) else None

def main():
    a = sys.argv[1:]
    runs, seeds = 24, [1, 2]
    if "--runs" in a:
        i = a.index("--runs"); runs = int(a[i + 1]); a = a[:i] + a[i + 2:]
    if "--seeds" in a:
        i = a.index("--seeds"); seeds = [int(x) for x in a[i + 1].split(",")]; a = a[:i] + a[i + 2:]
    props = a or sorted(REGISTRY)
    bad = 0
    tmp = tempfile.mkdtemp(prefix="det_", dir="/dev/shm")
    for p in props:
        for s in seeds:
            cfgs = {"A(16w,h0)": (16, 0), "B(1w,h0)": (1, 0), "C(16w,h0)": (16, 0), "D(4w,h1)": (4, 1)}
            res = {name: run(p, s, runs, w, h, os.path.join(tmp, f"{p}_{s}_{name[0]}.json")) for name, (w, h) in cfgs.items()}
            ref = res["A(16w,h0)"]
            diffs = {name: ([i for i in ref if r is None or r.get(i) != ref[i]] if ref is not None else ["no output"]) for name, r in res.items() if name != "A(16w,h0)"}
            ok = ref is not None and all(not d for d in diffs.values())
            herr = sum(1 for v in (ref or {}).values() if v.startswith("HARNESS-ERROR"))
            print(f"{p} seed={s} runs={runs} {'deterministic' if ok else 'DIVERGES ' + str({k: v[:5] for k, v in diffs.items() if v})} harness_errors={herr}", flush=True)
            bad += (not ok) + (herr > 0)
    subprocess.run(["rm", "-rf", tmp])
    print("determinism:", "ok" if not bad else f"{bad} problems")
    return 2 if bad else 0

if __name__ == "__main__":
    sys.exit(main())
