#!/venv/bin/python
"""CLI entry for every check:  run_check.py <Cxx> [--tier quick|thorough] [--runs N] [--workers N]

exit 0  property held on everything explored (known findings are printed as KNOWN-FINDING lines)
exit 1  at least one `VIOLATION property=<id> replay=<path>` line (a violation not listed as known)
exit 2  HARNESS-ERROR (determinism breach, watchdog, exception in harness code) - never reported as success
"""
from __future__ import annotations

import os
import sys

HERE = os.path.dirname(os.path.abspath(__file__))


def _reexec() -> None:
    want = {"PYTHONHASHSEED": "0", "OMP_NUM_THREADS": "1", "MKL_NUM_THREADS": "1", "AGILERL_VERIF": "1"}
    if os.environ.get("VERIF_NO_REEXEC") == "1":
        for k, v in want.items():
            if k != "PYTHONHASHSEED":
                os.environ[k] = v
        return
    if any(os.environ.get(k) != v for k, v in want.items()):
        env = dict(os.environ)
        env.update(want)
        os.execve(sys.executable, [sys.executable] + sys.argv, env)


if __name__ == "__main__":
    _reexec()

import argparse
import json
import signal
import subprocess
import time
import traceback
import warnings
from collections import Counter

sys.path.insert(0, HERE)
REPO = os.environ.get("VERIF_REPO", "/repo")
sys.path.insert(0, REPO)
warnings.filterwarnings("ignore")

from sim import kernel  # noqa: E402
from sim.registry import REGISTRY, load_engine  # noqa: E402


# ------------------------------------------------------------------------------------------------
def load_known():
    path = os.path.join(HERE, "known_findings.json")
    if not os.path.exists(path):
        return []
    with open(path) as f:
        return json.load(f).get("findings", [])


def match_known(prop, v, known):
    for k in known:
        if k.get("status") != "known" or k.get("property") != prop:
            continue
        if k.get("class") != v["class"]:
            continue
        loc = k.get("locator", {})
        if all(v["locator"].get(a) == b for a, b in loc.items()):
            return k
    return None


class _Watchdog(Exception):
    pass


def _alarm(signum, frame):
    raise _Watchdog()


def exec_case(prop, case, wall_cap=400.0):
    """Run one case under a wall-clock watchdog; returns the result dict (never raises)."""
    eng = load_engine(prop)
    old = signal.signal(signal.SIGALRM, _alarm)
    signal.setitimer(signal.ITIMER_REAL, wall_cap)
    try:
        res = eng.run(prop, case)
    except _Watchdog:
        res = {"harness_error": f"watchdog: run exceeded {wall_cap}s wall clock"}
    except BaseException as e:  # harness exceptions are never swallowed into success
        res = {"harness_error": "".join(traceback.format_exception(type(e), e, e.__traceback__))[-3000:]}
    finally:
        signal.setitimer(signal.ITIMER_REAL, 0)
        signal.signal(signal.SIGALRM, old)
    return res


def _worker(args):
    prop, seed, idx, tier = args
    eng = load_engine(prop)
    rng = kernel.child_rng(seed, prop, idx)
    try:
        case = eng.gen(prop, rng, tier)
    except BaseException as e:
        return idx, None, {"harness_error": "gen: " + "".join(traceback.format_exception(type(e), e, e.__traceback__))[-3000:]}
    case["_run"] = {"seed": seed, "index": idx}
    t0 = time.perf_counter()
    res = exec_case(prop, case)
    res["wall"] = time.perf_counter() - t0
    keep_case = bool(res.get("violations")) or idx < 3 or "harness_error" in res
    return idx, (case if keep_case else None), res


def git_head(repo):
    try:
        h = subprocess.run(["git", "-C", repo, "rev-parse", "HEAD"], capture_output=True, text=True, timeout=20).stdout.strip()
        d = subprocess.run(["git", "-C", repo, "status", "--porcelain", "--untracked-files=no"], capture_output=True, text=True, timeout=20).stdout.strip()
        return h, bool(d)
    except Exception:
        return "unknown", False


def write_replay(prop, v, case, seed, digest, tag=""):
    rdir = os.environ.get("VERIF_REPLAY_DIR", os.path.join(HERE, "replays"))
    os.makedirs(rdir, exist_ok=True)
    head, dirty = git_head(REPO)
    cls = v["class"].replace("/", "_").replace(":", "-").replace("@", "-")[:80]
    path = os.path.join(rdir, f"{prop}-{cls}-{seed}-{case.get('_run', {}).get('index', 0)}{tag}.json")
    with open(path, "w") as f:
        json.dump(
            {
                "property": prop,
                "class": v["class"],
                "locator": v["locator"],
                "message": v["msg"],
                "verif_seed": seed,
                "pythonhashseed": os.environ.get("PYTHONHASHSEED"),
                "case": case,
                "digest": digest,
                "repo_head": head,
                "repo_dirty": dirty,
            },
            f,
            indent=1,
            sort_keys=True,
        )
    return path


def selfcheck():
    """setup_cmd: nothing to build; verify imports, the known-findings file and a determinism smoke test."""
    import importlib

    t0 = time.perf_counter()
    import torch  # noqa: F401
    import agilerl  # noqa: F401

    print(f"python {sys.version.split()[0]} torch {torch.__version__} agilerl from {os.path.dirname(agilerl.__file__)}")
    known = load_known()
    ids = [k["id"] for k in known]
    assert len(ids) == len(set(ids)), "duplicate ids in known_findings.json"
    for k in known:
        assert k["status"] in ("known", "fixed") and k["property"] in REGISTRY or k["status"] == "fixed", k
    bad = 0
    for prop in sorted(REGISTRY):
        eng = load_engine(prop)
        for i in range(3):
            rng = kernel.child_rng(kernel.DEFAULT_SEED, prop, i)
            case = eng.gen(prop, rng, "quick")
            case["_run"] = {"seed": kernel.DEFAULT_SEED, "index": i}
            r1 = exec_case(prop, case)
            r2 = exec_case(prop, json.loads(json.dumps(case)))
            if "harness_error" in r1 or "harness_error" in r2 or r1["digest"] != r2["digest"]:
                print(f"SELFCHECK-FAIL {prop} run {i}: {r1.get('harness_error') or r2.get('harness_error') or 'digest differs between two executions'}")
                bad += 1
    print(f"selfcheck: {len(REGISTRY)} properties, determinism smoke {'FAILED' if bad else 'ok'}, {time.perf_counter() - t0:.1f}s")
    return 2 if bad else 0


def main(argv=None):
    if (argv or sys.argv[1:])[:1] == ["--selfcheck"]:
        return selfcheck()
    ap = argparse.ArgumentParser()
    ap.add_argument("prop")
    ap.add_argument("--tier", default=os.environ.get("VERIF_TIER", "quick"), choices=["quick", "thorough"])
    ap.add_argument("--runs", type=int, default=None)
    ap.add_argument("--workers", type=int, default=int(os.environ.get("VERIF_WORKERS", "16")))
    ap.add_argument("--seed", type=int, default=int(os.environ.get("VERIF_SEED", kernel.DEFAULT_SEED)))
    ap.add_argument("--wall", type=float, default=None, help="wall-clock cap for the batch in seconds")
    ap.add_argument("--no-shrink", action="store_true")
    ap.add_argument("--no-evidence", action="store_true")
    ap.add_argument("--digests", default=None, help="write {run index: event-log digest} to this JSON file (determinism self-test)")
    a = ap.parse_args(argv)

    prop = a.prop
    if prop not in REGISTRY:
        print(f"HARNESS-ERROR unknown property {prop}")
        return 2
    reg = REGISTRY[prop]
    eng = load_engine(prop)
    tier_cfg = reg["tiers"][a.tier]
    n_runs = a.runs if a.runs is not None else tier_cfg["runs"]
    wall_cap = a.wall if a.wall is not None else tier_cfg["wall"]
    seed = a.seed
    print(f"VERIF_SEED={seed} property={prop} tier={a.tier} runs={n_runs} workers={a.workers} "
          f"PYTHONHASHSEED={os.environ.get('PYTHONHASHSEED')} repo={REPO}", flush=True)

    t0 = time.perf_counter()
    results = {}
    cases = {}
    skipped = 0
    if hasattr(eng, "warmup"):
        eng.warmup()
    if a.workers <= 1:
        for i in range(n_runs):
            if time.perf_counter() - t0 > wall_cap:
                skipped = n_runs - i
                break
            idx, case, res = _worker((prop, seed, i, a.tier))
            results[idx] = res
            if case is not None:
                cases[idx] = case
    else:
        import multiprocessing as mp
        from concurrent.futures import ProcessPoolExecutor, wait, FIRST_COMPLETED

        ctx = mp.get_context("fork")
        with ProcessPoolExecutor(max_workers=a.workers, mp_context=ctx) as ex:
            pending = set()
            nxt = 0
            while nxt < n_runs or pending:
                while nxt < n_runs and len(pending) < a.workers * 2:
                    if time.perf_counter() - t0 > wall_cap:
                        skipped = n_runs - nxt
                        nxt = n_runs
                        break
                    pending.add(ex.submit(_worker, (prop, seed, nxt, a.tier)))
                    nxt += 1
                if not pending:
                    break
                done, pending = wait(pending, timeout=300, return_when=FIRST_COMPLETED)
                if not done:
                    print("HARNESS-ERROR worker pool made no progress for 300 s")
                    for p in pending:
                        p.cancel()
                    os._exit(2)
                for fut in done:
                    try:
                        idx, case, res = fut.result()
                    except BaseException as e:
                        print(f"HARNESS-ERROR worker died: {e!r}")
                        os._exit(2)
                    results[idx] = res
                    if case is not None:
                        cases[idx] = case
    wall_runs = time.perf_counter() - t0

    # ---------------- aggregate in run-index order (independent of worker count) ------------------
    known = load_known()
    harness_errors = []
    probes, faults = Counter(), Counter()
    digests_nontrivial = set()
    state_keys = set()
    sim_time = 0.0
    steps = 0
    events = 0
    first_by_key = {}
    known_seen = {}
    n_viol_runs = 0
    for idx in sorted(results):
        r = results[idx]
        if "harness_error" in r:
            harness_errors.append((idx, r["harness_error"]))
            continue
        probes.update(r.get("probes", {}))
        faults.update(r.get("faults", {}))
        sim_time += r.get("sim_time", 0.0)
        steps += r.get("steps", 0)
        events += r.get("events", 0)
        state_keys.update(r.get("state_keys", []))
        if r.get("nontrivial"):
            digests_nontrivial.add(r["digest"])
        if r.get("violations"):
            n_viol_runs += 1
        for v in r.get("violations", []):
            k = match_known(prop, v, known)
            if k is not None:
                known_seen.setdefault(k["id"], [k, 0])[1] += 1
                continue
            key = kernel.viol_key(v)
            if key not in first_by_key:
                first_by_key[key] = (idx, v)

    if a.digests:
        with open(a.digests, "w") as f:
            json.dump({str(i): (results[i].get("digest") or "HARNESS-ERROR") + "|" + ",".join(sorted(kernel.viol_key(v) for v in results[i].get("violations", []))) for i in sorted(results)}, f)
    rc = 0
    out_lines = []
    for kid, (k, cnt) in sorted(known_seen.items()):
        out_lines.append(f"KNOWN-FINDING: property={prop} {k['what']} [id={kid} seen_in={cnt} violation records]")

    # ---------------- shrink + replay files for new violations -------------------------------
    from sim import shrink

    new_viol = sorted(first_by_key.values(), key=lambda t: t[0])
    replay_paths = []
    for n, (idx, v) in enumerate(new_viol):
        case = cases.get(idx)
        if case is None:
            continue
        key = kernel.viol_key(v)
        final_case, final_v, digest = case, v, results[idx]["digest"]
        red = results[idx].get("reduced_case")
        if red is not None:
            # the engine explored several fault plans in this run: continue with the single plan that failed
            red["_run"] = case.get("_run", {})
            rr = exec_case(prop, red)
            hit = [x for x in rr.get("violations", []) if kernel.viol_key(x) == key]
            if hit:
                case = final_case = red
                final_v, digest = hit[0], rr["digest"]
        if not a.no_shrink and n < 6:
            def reproduces(c, key=key):
                rr = exec_case(prop, c)
                return any(kernel.viol_key(x) == key for x in rr.get("violations", []))

            simp = eng.simplifiers(prop) if hasattr(eng, "simplifiers") else []
            try:
                small = shrink.shrink_case(case, reproduces, simplifiers=simp, budget=tier_cfg.get("shrink_budget", 40))
                rr = exec_case(prop, small)
                hit = [x for x in rr.get("violations", []) if kernel.viol_key(x) == key]
                if hit:
                    final_case, final_v, digest = small, hit[0], rr["digest"]
            except Exception:
                traceback.print_exc()
        path = write_replay(prop, final_v, final_case, seed, digest)
        replay_paths.append(path)
        out_lines.append(f"VIOLATION property={prop} replay={path}")
        out_lines.append(f"  class={final_v['class']} locator={json.dumps(final_v['locator'], sort_keys=True)}")
        out_lines.append(f"  {final_v['msg'][:600]}")
        rc = 1
    if harness_errors:
        rc = 2
        for idx, he in harness_errors[:3]:
            out_lines.append(f"HARNESS-ERROR run={idx}: {he[-1500:]}")
        out_lines.append(f"HARNESS-ERROR count={len(harness_errors)}")

    wall = time.perf_counter() - t0
    n_done = len(results)
    info = eng.info(prop) if hasattr(eng, "info") else {}
    samples = []
    for idx in sorted(cases)[:3]:
        c = dict(cases[idx])
        if isinstance(c.get("ops"), list) and len(c["ops"]) > 40:
            c["ops"] = c["ops"][:40] + [f"... {len(cases[idx]['ops']) - 40} more"]
        samples.append(c)
    if not a.no_evidence:
        ev = {
            "property_id": prop,
            "tier": a.tier,
            "seed": seed,
            "level": reg["level"],
            "coverage": {
                "evaluations": n_done,
                "distinct_nontrivial": len(digests_nontrivial),
                "rule": info.get("rule", ""),
                "samples": samples or [{"note": "no case kept"}],
                "simulated_runs": n_done,
                "runs_skipped_by_wall_cap": skipped,
                "runs_per_hour": round(n_done / max(wall_runs, 1e-9) * 3600),
                "seeds_per_hour": round(n_done / max(wall_runs, 1e-9) * 3600),
                "simulated_time_s": round(sim_time, 3),
                "simulated_steps": steps,
                "events_logged": events,
                "faults_injected": dict(sorted(faults.items())),
                "probes": dict(sorted(probes.items())),
                "probes_stuck_at_zero": [p for p in info.get("expected_probes", []) if probes.get(p, 0) == 0],
                "distinct_states": len(state_keys),
                "distinct_states_measure": info.get("state_measure", ""),
                "components_real": info.get("components_real", []),
                "components_stub": info.get("components_stub", []),
                "known_findings_seen": {kid: cnt for kid, (k, cnt) in sorted(known_seen.items())},
                "runs_with_violation_records": n_viol_runs,
                "new_violation_classes": [v["class"] for _, v in new_viol],
                "replays": replay_paths,
                "workers": a.workers,
                "pythonhashseed": os.environ.get("PYTHONHASHSEED"),
                "harness_errors": len(harness_errors),
            },
            "assumptions": info.get("assumptions", []),
            "wall_s": round(wall, 2),
            "violations": len(new_viol),
        }
        os.makedirs(os.path.join(HERE, "evidence"), exist_ok=True)
        with open(os.path.join(HERE, "evidence", f"{prop}.json"), "w") as f:
            json.dump(ev, f, indent=1, sort_keys=True, default=str)
    stuck = [p for p in info.get("expected_probes", []) if probes.get(p, 0) == 0]
    if stuck and a.tier == "thorough":
        out_lines.append(f"WARNING probes stuck at zero: {stuck}")
    for line in out_lines:
        print(line)
    print(f"SUMMARY property={prop} runs={n_done} skipped={skipped} distinct_nontrivial={len(digests_nontrivial)} "
          f"states={len(state_keys)} faults={sum(faults.values())} known={len(known_seen)} new_violations={len(new_viol)} "
          f"harness_errors={len(harness_errors)} wall={wall:.1f}s exit={rc}", flush=True)
    return rc


if __name__ == "__main__":
    sys.exit(main())
