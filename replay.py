#!/venv/bin/python
"""Replay one file written by run_check.py in a fresh interpreter:  replay.py <file>

exit 1 + the same VIOLATION line iff the recorded violation (same class and locator) reproduces; the recorded
event-log digest must reproduce too (a differing digest is printed as DIGEST-MISMATCH and exits 2)."""
import os
import sys

HERE = os.path.dirname(os.path.abspath(__file__))
if __name__ == "__main__":
    want = {"PYTHONHASHSEED": "0", "OMP_NUM_THREADS": "1", "MKL_NUM_THREADS": "1", "AGILERL_VERIF": "1"}
    if any(os.environ.get(k) != v for k, v in want.items()):
        env = dict(os.environ)
        env.update(want)
        os.execve(sys.executable, [sys.executable] + sys.argv, env)

import json
import warnings

sys.path.insert(0, HERE)
sys.path.insert(0, os.environ.get("VERIF_REPO", "/repo"))
warnings.filterwarnings("ignore")


def main():
    import run_check
    from sim import kernel

    path = sys.argv[1]
    with open(path) as f:
        rep = json.load(f)
    prop = rep["property"]
    res = run_check.exec_case(prop, rep["case"])
    if "harness_error" in res:
        print("HARNESS-ERROR", res["harness_error"])
        return 2
    want = rep["class"] + "|" + json.dumps(rep["locator"], sort_keys=True)
    hit = [v for v in res["violations"] if kernel.viol_key(v) == want]
    print(f"replayed {path}: events={res['events']} digest={res['digest']} violations={[v['class'] for v in res['violations']]}")
    if hit:
        print(f"VIOLATION property={prop} replay={path}")
        print(f"  class={hit[0]['class']} locator={json.dumps(hit[0]['locator'], sort_keys=True)}")
        print(f"  {hit[0]['msg'][:800]}")
        if rep.get("digest") and res["digest"] != rep["digest"]:
            print(f"DIGEST-MISMATCH recorded={rep['digest']} replayed={res['digest']}")
            return 2
        return 1
    print("not reproduced")
    return 0


if __name__ == "__main__":
    sys.exit(main())
