#!/usr/bin/env python3
"""Confirm and import a seeded change produced by an independent sub-agent, then run checks against it.

  seeded.py confirm <worktree> <name>         demo FAILs with the change / PASSes without; existing related tests; copy into seeded/<name>/
  seeded.py check <name> [props...] [--runs N] apply seeded/<name>/patch.diff to /repo, run the property's quick check(s), undo (git checkout -- .)
"""
import json, os, re, shutil, subprocess, sys, time
ROOT = os.path.dirname(os.path.dirname(os.path.abspath(__file__)))

def sh(cmd, **kw):
    return subprocess.run(cmd, shell=isinstance(cmd, str), capture_output=True, text=True, **kw)

def demo(wt):
    env = dict(os.environ, PYTHONPATH=wt)
    for k in ("VERIF_REPO", "AGILERL_VERIF"):
        env.pop(k, None)
    r = subprocess.run(["/venv/bin/python", "_seeded/demo.py"], cwd=wt, env=env, capture_output=True, text=True, timeout=900)
    return r.returncode, (r.stdout + r.stderr).strip().splitlines()[-3:]

def confirm(wt, name):
    """Confirm in a FRESH scratch worktree of /repo's HEAD (git stash is shared between worktrees, so it is never used):
    demo must PASS on the original tree and FAIL after `git apply patch.diff`."""
    assert os.path.exists(f"{wt}/_seeded/patch.diff")
    meta = json.load(open(f"{wt}/_seeded/meta.json"))
    patch = sh(["git", "-C", wt, "diff", "--", "agilerl"]).stdout
    given = open(f"{wt}/_seeded/patch.diff").read()
    if not patch.strip():
        patch = given  # the agent's worktree lost its change (shared stash): use the patch it delivered
    scratch = "/dev/shm/confirm_" + name
    sh(["git", "-C", "/repo", "worktree", "remove", "--force", scratch])
    assert sh(["git", "-C", "/repo", "worktree", "add", "--detach", "-f", scratch, "HEAD"]).returncode == 0
    try:
        os.makedirs(scratch + "/_seeded", exist_ok=True)
        shutil.copy(f"{wt}/_seeded/demo.py", scratch + "/_seeded/demo.py")
        rc0, out0 = demo(scratch)
        pf = scratch + "/_seeded/patch.diff"
        open(pf, "w").write(patch)
        ap = sh(["git", "-C", scratch, "apply", "--whitespace=nowarn", pf])
        if ap.returncode:
            print("patch does not apply to /repo HEAD:", ap.stderr[:300])
            return 2
        rc1, out1 = demo(scratch)
        files = sh(["git", "-C", scratch, "diff", "--name-only"]).stdout.split()
    finally:
        sh(["git", "-C", "/repo", "worktree", "remove", "--force", scratch])
        sh(["git", "-C", "/repo", "worktree", "prune"])
    print(f"original tree: rc={rc0} {[l[:160] for l in out0]}\nchanged tree: rc={rc1} {[l[:160] for l in out1]}")
    ok = rc1 == 1 and rc0 == 0
    dst = os.path.join(ROOT, "seeded", name)
    os.makedirs(dst, exist_ok=True)
    open(os.path.join(dst, "patch.diff"), "w").write(patch)
    shutil.copy(f"{wt}/_seeded/demo.py", os.path.join(dst, "demo.py"))
    meta["confirmed_by_me"] = {"how": "fresh scratch worktree of /repo HEAD: demo.py before and after `git apply patch.diff`", "demo_fails_with_change": rc1 == 1,
                               "demo_passes_without": rc0 == 0, "modified_files": files, "patch_identical_to_delivered": patch.strip() == given.strip()}
    json.dump(meta, open(os.path.join(dst, "meta.json"), "w"), indent=1)
    print("CONFIRMED" if ok else "NOT CONFIRMED", "->", dst)
    return 0 if ok else 1


def check(name, props, runs):
    dst = os.path.join(ROOT, "seeded", name)
    meta = json.load(open(os.path.join(dst, "meta.json")))
    props = props or [meta["property"]]
    assert sh(["git", "-C", "/repo", "status", "--porcelain", "--untracked-files=no"]).stdout.strip() == "", "/repo has local changes"
    ap = sh(["git", "-C", "/repo", "apply", os.path.join(dst, "patch.diff")])
    if ap.returncode:
        print("APPLY FAILED", ap.stderr); return 2
    res = {}
    try:
        for p in props:
            t0 = time.time()
            cmd = ["/venv/bin/python", os.path.join(ROOT, "run_check.py"), p, "--no-evidence"] + (["--runs", str(runs)] if runs else [])
            r = subprocess.run(cmd, capture_output=True, text=True, env=dict(os.environ, VERIF_REPLAY_DIR=os.path.join(dst, "replays")))
            classes = sorted(set(re.findall(r"^  class=(\S+)", r.stdout, re.M)))
            res[p] = {"exit": r.returncode, "seconds": round(time.time() - t0), "classes": classes}
            print(p, res[p])
    finally:
        sh(["git", "-C", "/repo", "checkout", "--", "."])
    meta.setdefault("checked", {}).update(res)
    json.dump(meta, open(os.path.join(dst, "meta.json"), "w"), indent=1)
    return 0

if __name__ == "__main__":
    a = sys.argv[1:]
    if a[0] == "confirm":
        sys.exit(confirm(a[1], a[2]))
    runs = None
    if "--runs" in a:
        i = a.index("--runs"); runs = int(a[i + 1]); a = a[:i] + a[i + 2:]
    sys.exit(check(a[1], a[2:], runs))
