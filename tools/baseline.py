#!/usr/bin/env python3
"""Run the repository's pinned test suite (guard OFF) and compare with /root/.vp/BASELINE.json.

usage: baseline.py [-n WORKERS] [pytest selectors...]   exit 0 iff every stable_pass test that was selected passed."""
import json, os, subprocess, sys, tempfile, xml.etree.ElementTree as ET

def main():
    args = sys.argv[1:]
    n = "12"
    if args[:1] == ["-n"]:
        n = args[1]; args = args[2:]
    base = json.load(open("/root/.vp/BASELINE.json"))
    want = set(base["stable_pass"])
    out = tempfile.mkdtemp(prefix="baseline_", dir="/dev/shm")
    junit = os.path.join(out, "junit.xml")
    env = dict(os.environ)
    for k in ("AGILERL_VERIF", "VERIF_REPO", "PYTHONHASHSEED"):
        env.pop(k, None)
    env_x = dict(env, OMP_NUM_THREADS="1", MKL_NUM_THREADS="1")  # 12 xdist workers x 16 torch threads each thrash the 16 cores (8 min instead of 40 s for tests/test_utils)
    cmd = ["/venv/bin/python", "-m", "pytest", "-q", "-p", "no:cacheprovider", "--timeout=900", "--continue-on-collection-errors",
           "-n", n, f"--junitxml={junit}"] + args
    p = subprocess.run(cmd, cwd="/repo", env=env_x, stdout=subprocess.PIPE, stderr=subprocess.STDOUT, text=True)
    tail = p.stdout.strip().splitlines()[-1:] 
    passed, seen = set(), set()
    for tc in ET.parse(junit).getroot().iter("testcase"):
        name = f"{tc.get('classname')}::{tc.get('name')}"
        seen.add(name)
        if not any(c.tag in ("failure", "error", "skipped") for c in tc):
            passed.add(name)
    sel = want & seen if args else want
    missing = sorted(sel - passed)
    print(f"pytest: {tail}")
    if missing and n != "0":
        # xdist ordering makes some accelerator tests flaky: confirm regressions serially in one process
        ids = [m.replace(".", "/", m.split("::")[0].count(".")).replace("::", ".py::", 1) for m in missing]
        junit2 = os.path.join(out, "junit2.xml")
        subprocess.run(["/venv/bin/python", "-m", "pytest", "-q", "-p", "no:cacheprovider", "--timeout=900", f"--junitxml={junit2}"] + ids,
                       cwd="/repo", env=env, stdout=subprocess.PIPE, stderr=subprocess.STDOUT, text=True)
        ok2 = set()
        for tc in ET.parse(junit2).getroot().iter("testcase"):
            if not any(c.tag in ("failure", "error", "skipped") for c in tc):
                ok2.add(f"{tc.get('classname')}::{tc.get('name')}")
        print(f"re-ran {len(missing)} suspected regressions serially: {len(set(missing) & ok2)} pass in isolation")
        missing = sorted(set(missing) - ok2)
    print(f"baseline stable_pass selected={len(sel)} passed={len(sel & passed)} regressions={len(missing)} newly_passing={len(passed - want)}")
    for m in missing[:40]:
        print("REGRESSION", m)
    subprocess.run(["rm", "-rf", out])
    # the suite writes checkpoints into the working tree: never leave them around to be committed by accident
    subprocess.run(["git", "-C", "/repo", "clean", "-fdq", "--", "models", "tests", "test_dir", "checkpoints", "saved_checkpoints"], capture_output=True)
    return 1 if missing else 0

if __name__ == "__main__":
    sys.exit(main())
