#!/usr/bin/env python3
"""For every fix: commit of /repo write selftest/mutants/revert_<hash>.patch = the reverse of that commit, tagged with the properties
whose checks must report the defect when it is brought back (table below). Keeps sensitivity honest about every repaired defect."""
import os, subprocess, sys
ROOT = os.path.dirname(os.path.dirname(os.path.abspath(__file__)))
sys.path.insert(0, ROOT)
import json
known = json.load(open(os.path.join(ROOT, "known_findings.json")))["findings"]
by_commit = {}
upto = {}
for k in known:
    if k.get("status") == "fixed":
        by_commit.setdefault(k["commit"], set()).update(k.get("detected_by", [k["property"]]))
        if k.get("revert_from"):
            upto[k["commit"]] = k["revert_from"]  # a later follow-up commit touched the same lines: revert both together
manual = {k["commit"] for k in known if k.get("revert_manual")}  # reverse patch kept by hand (later commits touched the neighbouring lines)
for c, props in sorted(by_commit.items()):
    if c in manual:
        continue
    diff = subprocess.run(["git", "-C", "/repo", "diff", upto.get(c, c), c + "~1"], capture_output=True, text=True).stdout
    if c in upto:
        # restrict to the files of the fix itself
        files = subprocess.run(["git", "-C", "/repo", "diff", "--name-only", c + "~1", c], capture_output=True, text=True).stdout.split()
        diff = subprocess.run(["git", "-C", "/repo", "diff", upto[c], c + "~1", "--"] + files, capture_output=True, text=True).stdout
    out = os.path.join(ROOT, "selftest", "mutants", f"revert_{c}.patch")
    with open(out, "w") as f:
        f.write(f"# properties: {' '.join(sorted(props))}\n# reverse of /repo commit {c}\n" + diff)
    print("wrote", out, sorted(props))
