#!/usr/bin/env python3
"""mkmutant.py <name> "<props>" <file-relative-to-/repo> <<< python-literal list of (old, new) pairs
Writes selftest/mutants/<name>.patch (a git diff against /repo's working tree file) with a '# properties:' header."""
import ast, difflib, os, sys
name, props, rel = sys.argv[1:4]
pairs = ast.literal_eval(sys.stdin.read())
src = open(os.path.join("/repo", rel)).read()
new = src
for old, rep in pairs:
    assert new.count(old) == 1, f"pattern must occur exactly once ({new.count(old)}): {old[:60]!r}"
    new = new.replace(old, rep)
diff = "".join(difflib.unified_diff(src.splitlines(True), new.splitlines(True), "a/" + rel, "b/" + rel))
out = os.path.join(os.path.dirname(os.path.dirname(os.path.abspath(__file__))), "selftest", "mutants", name + ".patch")
mode = "a" if os.path.exists(out) and "--append" in sys.argv else "w"
with open(out, mode) as f:
    if mode == "w":
        f.write(f"# properties: {props}\n")
    f.write(f"diff --git a/{rel} b/{rel}\n" + diff)
print("wrote", out)
