#!/usr/bin/env python3
"""Run every registered quick (or thorough) check in /verif against /repo, writing evidence; print one line per check."""
import os, subprocess, sys, time
ROOT = os.path.dirname(os.path.dirname(os.path.abspath(__file__)))
sys.path.insert(0, ROOT)
from sim.registry import REGISTRY
tier = sys.argv[1] if len(sys.argv) > 1 else "quick"
props = sys.argv[2:] or sorted(REGISTRY)
bad = 0
for p in props:
    t0 = time.time()
    r = subprocess.run(["/venv/bin/python", os.path.join(ROOT, "run_check.py"), p, "--tier", tier], capture_output=True, text=True)
    summ = [l for l in r.stdout.splitlines() if l.startswith(("SUMMARY", "VIOLATION", "HARNESS", "KNOWN"))]
    print(p, "rc=%d" % r.returncode, "%.0fs" % (time.time() - t0), " | ".join(x[:160] for x in summ[-3:]), flush=True)
    bad += r.returncode != 0
sys.exit(1 if bad else 0)
