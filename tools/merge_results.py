#!/usr/bin/env python3
"""Merge the rows of targeted sensitivity runs (log files given as arguments, oldest first) into selftest/RESULTS.md: the latest verdict per
(patch, property) wins; rows of patches that no longer exist are dropped."""
import glob, json, os, re, sys
ROOT = os.path.dirname(os.path.dirname(os.path.abspath(__file__)))
res = os.path.join(ROOT, "selftest", "RESULTS.md")
rows = {}
order = []
for line in open(res):
    m = re.match(r"\| (\S+) \| (C\d\d) \| (.+?) \| (\d+) \| (.*) \|$", line.rstrip("\n"))
    if m:
        k = (m.group(1), m.group(2))
        rows[k] = (m.group(3), m.group(4), m.group(5), "full run")
        order.append(k)
for lf in sys.argv[1:]:
    for line in open(lf, errors="replace"):
        m = re.match(r"(\S+)\s+(C\d\d) (DETECTED|MISSED|HARNESS-ERROR|PATCH-FAILED.*?)\s+([\d.]+)s ?(.*)$", line.rstrip("\n"))
        if m:
            k = (m.group(1), m.group(2))
            if k not in rows:
                order.append(k)
            rows[k] = (m.group(3).split(" ")[0], str(int(float(m.group(4)))), m.group(5).strip(), "targeted run")
def exists(name):
    if name.startswith("seeded/"):
        mp = os.path.join(ROOT, name, "meta.json")
        return os.path.exists(mp) and not json.load(open(mp)).get("outside_statement")
    return os.path.exists(os.path.join(ROOT, "selftest", "mutants", name))
def wanted(name, prop):
    if name.startswith("seeded/"):
        meta = json.load(open(os.path.join(ROOT, name, "meta.json")))
        return prop in meta.get("check_with", [meta["property"]])
    head = open(os.path.join(ROOT, "selftest", "mutants", name)).read(600)
    m = re.search(r"^# properties?: *(.+)$", head, re.M)
    return prop in (m.group(1).replace(",", " ").split() if m else [])
with open(res, "w") as f:
    f.write("# Sensitivity self-test results\n\nEach patch breaks a property on purpose in a scratch copy; the property's quick check must report it.\n"
            "Rows show the last run of each (patch, property) pair: the full runs of 2026-09-27 (morning; afternoon for every hand-written mutant and reverted fix), or a later targeted run\n"
            "(`selftest/sensitivity.py --only ...`) after the check or the patch changed. PATCH-FAILED / MISSED rows of the full run that were\n"
            "re-run afterwards are replaced by the later verdict.\n\n")
    f.write("| mutant | property | verdict | seconds | violation classes reported | from |\n|---|---|---|---|---|---|\n")
    n = {"DETECTED": 0}
    for k in order:
        if not exists(k[0]) or not wanted(*k):
            continue
        v = rows[k]
        n[v[0]] = n.get(v[0], 0) + 1
        f.write(f"| {k[0]} | {k[1]} | {v[0]} | {v[1]} | {v[2][:300]} | {v[3]} |\n")
    f.write("\n" + ", ".join(f"{k}: {c}" for k, c in sorted(n.items())) + "\n")
print(n)
