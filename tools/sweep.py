#!/usr/bin/env python3
"""Run every registered check (or the given ones) for several VERIF_SEED values without touching evidence; print one line per run.
usage: sweep.py [--seeds 1,2,3] [--tier quick] [C01 C02 ...]"""
import os, re, subprocess, sys, time
ROOT = os.path.dirname(os.path.dirname(os.path.abspath(__file__)))
sys.path.insert(0, ROOT)
from sim.registry import REGISTRY
a = sys.argv[1:]
seeds = [1, 2, 3]
tier = "quick"
if "--seeds" in a:
    i = a.index("--seeds"); seeds = [int(x) for x in a[i + 1].split(",")]; a = a[:i] + a[i + 2:]
if "--tier" in a:
    i = a.index("--tier"); tier = a[i + 1]; a = a[:i] + a[i + 2:]
props = a or sorted(REGISTRY)
bad = 0
for p in props:
    for s in seeds:
        t0 = time.time()
        r = subprocess.run(["/venv/bin/python", os.path.join(ROOT, "run_check.py"), p, "--tier", tier, "--no-evidence", "--seed", str(s)],
                           capture_output=True, text=True, env=dict(os.environ, VERIF_REPLAY_DIR=os.path.join(ROOT, "replays", "sweep")))
        summ = [l for l in r.stdout.splitlines() if l.startswith("SUMMARY")]
        print(f"{p} seed={s} rc={r.returncode} {time.time()-t0:.0f}s {summ[-1] if summ else r.stdout[-300:]}", flush=True)
        if r.returncode != 0:
            bad += 1
            for l in r.stdout.splitlines():
                if l.startswith(("VIOLATION", "  class=", "HARNESS-ERROR")):
                    print("   ", l[:300], flush=True)
sys.exit(1 if bad else 0)
