#!/usr/bin/env python3
"""Regenerates /verif/MANIFEST.json from sim/registry.py (single source of truth for which checks exist)."""
import json, os, subprocess, sys
ROOT = os.path.dirname(os.path.dirname(os.path.abspath(__file__)))
sys.path.insert(0, ROOT)
from sim.registry import REGISTRY, META

def main():
    commits = subprocess.run(["git", "-C", "/repo", "log", "--format=%h %s", "6e0befc..HEAD"], capture_output=True, text=True).stdout.strip().splitlines()
    hook_commits = [c.split()[0] for c in commits if not c.split(" ", 1)[1].startswith("fix:")]
    checks = []
    for pid in sorted(REGISTRY):
        reg = REGISTRY[pid]
        m = META[pid]
        checks.append({
            "property_id": pid,
            "quick_cmd": f"/venv/bin/python /verif/run_check.py {pid} --tier quick",
            "thorough_cmd": f"/venv/bin/python /verif/run_check.py {pid} --tier thorough",
            "evidence_file": f"/verif/evidence/{pid}.json",
            "replay_cmd_template": "/venv/bin/python /verif/replay.py {path}",
            "engine": reg["engine"].split(".")[-1],
            "level_claimed": {"category": reg["level"], "text": m["level_text"], "design_ref": m["design_ref"]},
            "level_note": m["level_note"],
            "technique": m["technique"],
        })
    engines = {}
    for pid, reg in REGISTRY.items():
        engines.setdefault(reg["engine"], []).append(pid)
    man = {
        "version": 1,
        "setup_cmd": "/venv/bin/python /verif/run_check.py --selfcheck",
        "hooks": {
            "guard": "AGILERL_VERIF",
            "enable": "checks set AGILERL_VERIF=1 in their own environment (run_check.py re-execs itself); no repository hook is needed so far: every observation point is reached through existing seams (module attributes, path arguments, Mutations.rng)",
            "baseline_off_cmd": "cd /repo && env -u AGILERL_VERIF /venv/bin/python -m pytest -ra -q -p no:cacheprovider --timeout=900 --continue-on-collection-errors",
            "source_commits": hook_commits,
            "add_only": True,
        },
        "engines": [{"name": e.split(".")[-1], "path": "/verif/" + e.replace(".", "/") + ".py", "serves_properties": sorted(p),
                     "kind_free_text": "deterministic simulation: seeded op/fault histories against the real code, reference-model oracles"} for e, p in sorted(engines.items())],
        "checks": checks,
        "not_applicable": [
            {"property_id": "C14", "reason": "legality of one selected action is a pure function of (observation, mask, weights, one RNG draw): no schedule, clock, fault or history for a simulator to control; illegal actions inside simulated training still surface under C20 through strict scripted environments"},
            {"property_id": "C15", "reason": "observation preprocessing is a pure function of (observation, space); input generation is not simulation"},
            {"property_id": "C16", "reason": "log-probability / entropy of a distribution at an action is a pure function of (logits, action, mask); needs an independent density computation, not a simulator"},
            {"property_id": "C18", "reason": "the categorical projection is a pure function of (batch, weights, support); mass/mean conservation is an algebraic identity over inputs"},
        ],
        "notes": "Technique family: deterministic simulation with fault injection. VERIF_SEED decides everything; replay files are minimised op/fault lists. Exit 2 = HARNESS-ERROR. See DESIGN.md.",
    }
    with open(os.path.join(ROOT, "MANIFEST.json"), "w") as f:
        json.dump(man, f, indent=1)
    print("wrote MANIFEST.json with", len(checks), "checks")

if __name__ == "__main__":
    main()
